#!/usr/bin/env python3
"""validate MANIFEST.json and evidence files against the given schemas (python3-vt has jsonschema)"""
import json, sys, glob, jsonschema
ok = True
m = json.load(open('/verif/MANIFEST.json')) if len(sys.argv) < 2 or sys.argv[1] != 'evidence-only' else None
if m is not None:
    jsonschema.validate(m, json.load(open('/root/.vp/MANIFEST.schema.json')))
    print("MANIFEST ok:", len(m['checks']), "checks,", len(m.get('not_applicable', [])), "n/a")
es = json.load(open('/root/.vp/EVIDENCE.schema.json'))
for f in sorted(glob.glob('/verif/evidence/*.json')):
    try:
        jsonschema.validate(json.load(open(f)), es)
        print("ok", f)
    except Exception as e:
        ok = False
        print("INVALID", f, str(e)[:300])
sys.exit(0 if ok else 1)
