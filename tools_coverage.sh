#!/bin/bash
# tools_coverage.sh [check ids...] : reach measurement. Builds the harness with source-based coverage
# (nightly, separate target directory under /tmp), runs the quick tier of the given checks (default: all) with
# evidence going to a scratch directory, and prints line coverage of the dicom-rs sources per file.
set -u
cd /verif/sim || exit 2
TD=/tmp/verif_cov_target; PD=/tmp/verif_cov_prof; rm -rf $PD; mkdir -p $PD
IDS="${@:-C01 C02 C04 C05 C06 C07 C09 C25 C26 C27 C28 C29 C30 C32 C33 C34}"
export RUSTFLAGS="--cfg dicom_verif --cfg dicom_verif_cov -C instrument-coverage"
LLVM_PROFILE_FILE="$PD/build-%p-%m.profraw" cargo +nightly build --release --offline --target-dir $TD 2>&1 | tail -2
BIN=$TD/release/dcmsim
TOOLS=$(dirname $(rustc +nightly --print target-libdir))/bin
for id in $IDS; do
  LLVM_PROFILE_FILE="$PD/%p-%m.profraw" VERIF_ROOT=/verif VERIF_EVIDENCE_DIR=/tmp/verif_scratch_evidence VERIF_RUNS=${COV_RUNS:-20000} $BIN check $id --tier quick 2>&1 | tail -1
done
$TOOLS/llvm-profdata merge -sparse $PD/*.profraw -o $PD/all.profdata
$TOOLS/llvm-cov report $BIN -instr-profile=$PD/all.profdata --ignore-filename-regex='(\.cargo|/rustc/|/verif/|/tests/)' 2>/dev/null | awk '{print $1, $8, $9, $10}' > /verif/mutants/coverage_report.txt
$TOOLS/llvm-cov export $BIN -instr-profile=$PD/all.profdata --format=lcov --ignore-filename-regex='(\.cargo|/rustc/|/verif/|/tests/)' > $PD/all.lcov 2>/dev/null
echo "report: /verif/mutants/coverage_report.txt ; lcov: $PD/all.lcov"
