#!/bin/bash
# tools_sweep.sh <tier> <seed>... : every check at each seed; prints one summary line per (check, seed) and any VIOLATION lines
TIER=$1; shift
cd "$(dirname "$0")"
# in a `vp run --with-repo` snapshot: build against the snapshot of /repo so that /repo itself stays free
if [ -n "${VP_RUN_REPO:-}" ] && [ "$(pwd)" != "/verif" ]; then
  sed -i "s|\"/repo/|\"$VP_RUN_REPO/|g" sim/*/Cargo.toml sim/tool_*/src/lib.rs
fi
for seed in "$@"; do
  for id in C01 C02 C04 C05 C06 C07 C09 C25 C26 C27 C28 C29 C30 C32 C33 C34; do
    out=$(./check $id --tier $TIER --seed $seed 2>&1); e=$?
    echo "seed=$seed $(echo "$out" | tail -1) [exit $e]"
    echo "$out" | grep -E "^(VIOLATION|KNOWN-FINDING|HARNESS|violation)" | sort | uniq -c | head -20
  done
done
