#!/usr/bin/env python3
"""Generates /verif/MANIFEST.json from the tables below (single source of truth)."""
import json, subprocess

NA = {
 "C03": "pure header encode/decode of at most 12 bytes and a VR code table: no schedule, fault, I/O behaviour or second party for the property to depend on (the layouts are pinned incidentally by the C02/C04 stream checks)",
 "C08": "the adaptive (flexible VR) decoder is a pure function of the byte stream; its only state is a one-shot lock that no seam behaviour (segmentation, faults, schedule) can influence",
 "C10": "text codecs are in-memory string<->bytes functions; the in-data-set clause is a pure function of the input stream; nothing to simulate",
 "C11": "numeric conversions of in-memory values: pure functions, no I/O, time or concurrency",
 "C12": "date/time arithmetic and text round trips on in-memory values: pure functions",
 "C13": "attribute operations on a sequential in-memory object; operation histories against a model with no simulated environment would be model-based testing, not simulation",
 "C14": "tag/keyword/selector text syntax: string functions",
 "C15": "dictionary lookup over the tag space: pure table function (exhaustive enumeration, not simulation)",
 "C16": "static registry contents: no behaviour over time, I/O or peers",
 "C17": "person-name string round trip: pure function",
 "C18": "encapsulation helpers and offset tables are computed in memory from in-memory fragments",
 "C19": "transcoding operates on in-memory objects; no seam, schedule or fault in the property",
 "C20": "RLE decoding of in-memory fragments: pure function",
 "C21": "native frame extraction from in-memory values: pure function",
 "C22": "LUT arithmetic: pure function",
 "C23": "JSON round trip of in-memory values: pure function (the reader's no-panic behaviour on damaged JSON is exercised under C05)",
 "C24": "JSON output shape: pure serialisation",
 "C31": "command group length is pure length arithmetic on an in-memory object",
 "C35": "file-to-file image conversion pipeline of two CLI tools: deterministic function of the input files, no schedule/fault dimension",
 "C36": "address print/parse string round trip: pure function",
}

# claimed in DESIGN.md but whose check is not built yet in this tree
PENDING = {
}

ENG_A = "simio"
ENG_B = "simnet"

CHECKS = {
 "C33": dict(level="exploration", engine=ENG_B, design="DESIGN.md §4 C33",
   technique="deterministic multi-node simulation at the libc socket seam: the unmodified storescu run(app) body (built from /repo/storescu/src by inclusion, arguments parsed by the tool's own clap definition, files on a per-worker sandbox file system) runs as a node connecting through an interposed connect() to a recording acceptor node with a seed-drawn acceptance policy; a seeded scheduler decides interleaving, send sizes, delivery segmentation and receive sizes; the recorded P-DATA stream is reassembled and every C-STORE message is checked against the file it names with an independent PS3.7/PS3.5 parser",
   text="Seeded search over file sets (1..4 files; SOP classes incl. prefix-related UIDs CT/Enhanced CT, MR/Enhanced MR; implicit/explicit LE, explicit BE, deflated, RLE/JPEG with opaque fragments, RLE with a decodable 8/16-bit monochrome image; a non-DICOM file) x tool options (never-transcode, fail-first, maximum PDU length, address form) x acceptor policies (accept all, per-class accept/reject, per-context coin, implicit only; reversed result order; advertised maximum; failure/warning/cancel/pending response status) x network schedules. Oracles: every message is command-then-data on one context with fragments not interleaved; it names one file of the set, at most once; its context was accepted and its proposed abstract syntax equals the file's SOP class, which is also the command's Affected SOP Class UID; the data bytes parse in the accepted transfer syntax (after inflating) to the file's data set: identical for the file's own syntax, re-encoded otherwise (decoded pixels for the RLE image); a file with undecodable encapsulated pixel data is never sent in another syntax.",
   note="Only the synchronous mode is simulated: run_async() re-parses the process arguments itself (App::parse()) and cannot be given per-run arguments in-process; both modes share check_presentation_contexts and into_ts. --ignore-sop-class is not used. Completeness (every sendable file is sent) is not demanded by the property and only recorded as a probe. The check was written after the seeded change C33-sop-class-prefix-match had been read (see DESIGN.md)."),
 "C32": dict(level="exploration", engine=ENG_B, design="DESIGN.md §4 C32",
   technique="deterministic multi-node simulation at the libc socket and open() seams: the unmodified storescp per-connection bodies (run_store_sync / run_store_async, built from /repo/storescp/src by inclusion, arguments parsed by the tool's own clap definition) run as a node against a scripted C-STORE requestor node; a seeded scheduler decides interleaving, send sizes, delivery segmentation and receive sizes; file creations are observed at the interposed open() and on a per-worker sandbox file system; stored files are parsed by an independent PS3.10/PS3.5 parser and compared with the data set sent",
   text="Seeded search over tool options (maximum PDU length, strict, promiscuous, uncompressed-only, sync/async) x association requests x 1..3 C-STORE requests with generated data sets in the negotiated transfer syntax (implicit/explicit LE, explicit BE, deflated, encapsulated RLE/JPEG fragments), Affected SOP Instance UID texts (plain, parent references, separators into an existing sub-directory, absolute paths reachable and unreachable, dot names, over-long) and fragmentations (one or many data fragments, empty fragments, an empty last fragment alone in its own PDU, several PDVs per PDU, an interleaved C-ECHO) x network schedules. Oracles: every path the node asks the OS to create and every file found afterwards lies directly inside the output directory; every complete valid request is answered with success carrying its message id and instance UID; for each acknowledged store a file directly in the output directory has a meta group naming the negotiated transfer syntax and the data set's SOP class/instance and a data set that parses to the one sent.",
   note="The listener loop of main() is not simulated: each run hands one accepted connection to the real per-connection body. The harness links the tool sources with transfer-syntax-registry features deflate+native (the shipped default build registers fewer supported syntaxes). Command sets are sent in one fragment. No connection faults here. The store-not-answered oracle was added after the seeded change C32-empty-last-fragment-ignored had been read (see DESIGN.md)."),
 "C30": dict(level="exploration", engine=ENG_B, design="DESIGN.md §4 C30",
   technique="deterministic multi-node simulation with connection fault injection at the libc socket seam: two nodes (real requestor x real acceptor in the four sync/async pairings, or one real side against a stub that may send any PDU at any time) run seed-drawn action scripts over {send, receive, release, abort, drop, serve-until-release}; a seeded scheduler decides interleaving (release collisions), short sends, partial deliveries and, in half of the runs, connection cuts, failing sends and read timeouts; release/abort outcomes and each side's send sequence are checked against the PS3.8 state machine over the recorded wire history (events stamped with the scheduler's global sequence number), plus bounded-step liveness",
   text="release() returns Ok only if the peer's next PDU after those already consumed is A-RELEASE-RP and Err when it is anything else (release request = collision, abort, data, unknown PDU, association PDU) or the connection closed/failed; abort() that returns Ok left an A-ABORT as the side's last PDU; after release/abort/drop the side's descriptor is closed; a side sends nothing after its A-ABORT or A-RELEASE-RP, no P-DATA after its A-RELEASE-RQ and A-RELEASE-RP only after having received A-RELEASE-RQ; every node returns within the step budget once the peer answered or the connection is closed or failed.",
   note="Both sides run unmodified dicom-rs code on real std/tokio TcpStream values whose descriptors are simulated. The acceptor application is a scripted loop over the library API (the storescp loops are C32's nodes). No wall clock is simulated: a read timeout is a scheduler event that makes a blocked recv return EAGAIN when the socket had a timeout configured. Bytes are never lost, duplicated or reordered inside a connection (TCP); connection-level faults are injected."),
 "C29": dict(level="exploration", engine=ENG_B, design="DESIGN.md §4 C29",
   technique="deterministic multi-node simulation at the libc socket seam: a real requestor node (establish / establish_async through an interposed connect()) and a real acceptor node in the four sync/async pairings under a seeded scheduler (interleaving, short sends, partial deliveries, short receives); agreement and PDU-limit invariants over the recorded wire history and both sides' views",
   text="Seeded search over requestor options x acceptor options x transfer scripts x network schedules with BOTH peers running unmodified dicom-rs code. Invariants: both sides report the same accepted contexts, equal to the negotiation model applied to the request actually seen on the wire; each side's peer maximum equals what the other advertised (0 -> largest, clamp); proposed ids distinct and odd; NoAcceptedPresentationContexts iff nothing is acceptable; every P-DATA PDU on the wire is within the receiver's maximum; a send above the peer's maximum returns SendTooLongPdu and leaves nothing on the wire (the accepted sends equal the P-DATA PDUs on the wire, in order); release succeeds after a clean exchange.",
   note="No connection faults in this check (C30/C34 carry those). send_pdata streams run on sync sides only: AsyncPDataWriter::drop calls block_in_place, which panics on the current-thread runtime the simulator schedules (its fragmentation is covered by C26). A local maximum below 1018 (e.g. 0) makes a side refuse every PDU including the negotiation PDUs: such runs are checked to fail at establishment."),
 "C28": dict(level="exploration", engine=ENG_B, design="DESIGN.md §4 C28",
   technique="deterministic multi-node simulation at the libc socket seam: the real establish()/establish_async() run as a node on a simulated connection against a scripted requestor node; a seeded scheduler decides node interleaving, send sizes, delivery segmentation and receive sizes; the wire bytes and the returned association are compared with an executable negotiation model",
   text="Seeded search over acceptor configurations x association requests (independent PS3.8 encoder, padded UIDs, many contexts, every user-information item) x network schedules. The unmodified ServerAssociationOptions::establish and establish_async bodies run on real std/tokio TcpStream values whose descriptors are simulated; what the acceptor puts on the wire (one result per proposed context with the same id, acceptance exactly per the abstract/transfer syntax rules with the first acceptable proposed transfer syntax, the rejection reasons, the advertised maximum length) and what the returned association reports (contexts, requestor/acceptor maximum PDU length with 0 -> largest, absent -> default) must equal the model.",
   note="Trusted: the negotiation model (written from the property text and PS3.8), the independent PS3.8 codec, the simulated TCP model (reliable ordered byte stream with arbitrary segmentation). Registry support is that of the harness build (deflate on: no registered-but-unsupported syntax exists; the unknown-UID case covers 'unsupported'). TLS paths are not simulated. A request longer than the maximum in strict mode is rejected before negotiation (checked: establish fails)."),
 "C05": dict(level="exploration", engine=ENG_A, design="DESIGN.md §4 C05",
   technique="deterministic simulation with fault injection: valid encodings damaged by seeded storage/transport faults (torn, flipped, zeroed, duplicated, transposed, spliced blocks; layout-aware length/VR/tag damage; nesting bombs) served through a short-reading source with a read-call budget into every reader entry point; panics caught in-process, aborts attributed by the supervisor (process isolation), hangs by budget + watchdog",
   text="Seeded search over (valid input, fault sequence, read segmentation, reader options). Every public reading entry point (files with/without preamble, meta group, eager/lazy/collector data-set readers in every transfer syntax incl. deflated and flexible VR, DICOM JSON, PDUs, pixel decoding with native/RLE/JPEG decoders, dump, textual tag/selector/date parsers on harvested strings) must return Ok or Err: no panic (class = innermost dicom-rs source location), no abort (each case runs in a worker process; a death is attributed to its run and described by a dry re-execution), no hang (read-call budget 256+8*len, plus a wall-clock watchdog confirmed by a solitary re-run). Four known findings (unbounded recursion per nested sequence level -> stack overflow) are listed in known_findings.jsonl.",
   note="Build has overflow checks and debug assertions ON. Allocation failure is not injected: readers that allocate what a damaged length field says are slow, not failing; the largest request is recorded as a probe (allocations >= 64 MiB are served with huge pages, >= 512 MiB limited to 4 concurrent processes). LUT/`to_vec` conversions after decoding are not called (not a reading entry point). The string clause is plain input mutation with no simulator dimension."),
 "C34": dict(level="fault_enumeration", engine=ENG_A, design="DESIGN.md §4 C34",
   technique="deterministic simulation with fault enumeration: each workload is executed fault-free for reference and then once per failing byte offset of the simulated writer/reader/transport (exhaustive for outputs <= 600 bytes, 128 sampled + boundaries above); oracle = Err, or Ok with output identical to the fault-free run inspected after all drops; the same at association level on the multi-node engine: the connection is lost at an enumerated byte offset of what a real requestor/acceptor sends or receives",
   text="For generated data sets, files, PDUs and P-DATA messages the simulated sink or source fails at every byte offset (exhaustive for small outputs) with six I/O error kinds or a zero-length write, once or persistently. The public operation (write_dataset_with_ts(_options), write_all, write_dataset, write_meta incl. Deflated Explicit LE; read_dataset_with_ts, from_reader, FileMetaTable::from_reader; write_pdu, PDataWriter write/finish, read_pdu_from_wire, PDataReader) must return Err, or Ok with exactly the fault-free output/value; the sink is inspected only after every value is dropped so that bytes lost in Drop impls are seen. Association level (assoc-* configurations, engine simnet): a short conversation of a real sync/async requestor or acceptor with a scripted peer is repeated with the connection lost after exactly k bytes sent or received (windows of 8 consecutive offsets per run, all offsets reached across runs); establish/send/receive/release/abort must return Err or Ok with the effect complete on the wire. Two known findings (deflate stream finished in Drop) are listed in known_findings.jsonl.",
   note="Interrupted and UnexpectedEof are deliberately not used as the injected failure. At association level the injected failure is loss of the connection at a byte offset; other socket errors are injected by C30's random faults. Path-based writers (write_to_file) are not fault-injected; their Write-based twin write_all carries the property."),
 "C06": dict(level="exploration", engine=ENG_A, design="DESIGN.md §4 C06",
   technique="deterministic simulation: the lazy reader and the collector are driven by seed-drawn API-call histories over a seekable simulated source (short reads, EINTR, first read from 1 byte up) and refined against the eager reader as reference model",
   text="Seeded search over generated conforming files (three uncompressed syntaxes, nested sequences with defined/undefined lengths, native or encapsulated pixel data with empty/non-empty offset tables and zero-length fragments) x API-call histories x read segmentations. Lazy token stream (values fetched or skipped) must equal the eager token stream; the collector's meta group, union of portions split at arbitrary (present/absent) tags, separately read offset table and one-by-one fragments must equal the eagerly read object; read_until/read_to must give exactly the elements below / up to the tag.",
   note="Reference model = dicom-rs' own eager reader on a plain slice (whose fidelity is checked by C01/C02). Inputs come from the independent encoder."),
 "C09": dict(level="exploration", engine=ENG_A, design="DESIGN.md §4 C09",
   technique="deterministic simulation: meta tables under seed-drawn operation histories written to a counting simulated sink and read back through short-reading sources; complete files read back with/without preamble through sources whose first read returns from 1 byte up, and by path",
   text="Seeded search over file meta tables (odd/even strings, every subset of optional fields, private information) x attribute-operation histories x transport segmentations. After every step the recorded group length must equal the bytes the sink accepted after the group-length element (independent parse: exactly group 0002 inside), and the table must read back equal. Complete files written by write_all must read back identically from a byte source with or without the 128-byte preamble under any read segmentation (first read from 1 byte up) and by path.",
   note="By-path reads go through the real file system (temp dir); only the byte-source variant is under simulated segmentation. Trusted: independent meta parser in sim/dcmref."),
 "C07": dict(level="exploration", engine=ENG_A, design="DESIGN.md §4 C07",
   technique="deterministic simulation: odd-length streams from an independent encoder served through a simulated source (short reads, EINTR) into the real eager/lazy readers; invariant checked after every token: reported position == bytes the source handed out",
   text="Seeded search over data sets in which elements of every VR (incl. fixed-width binary VRs with a length that is not a multiple of the unit, inside items and defined-length sequences) declare odd lengths, x 3 syntaxes x {Accept, NextEven, Fail} x eager/lazy x read segmentations. After every token the reader's position() (captured by an observer around the public StatefulDecode) must equal the bytes the simulated source handed out; Accept must stay aligned and consume the stream exactly, NextEven one byte more per odd value, Fail must report an error at the first odd element.",
   note="Trusted: the independent encoder and the byte counter of the simulated source; no buffering layer sits between decoder and source. Private attributes are left out (in Implicit VR they are UN)."),
 "C01": dict(level="exploration", engine=ENG_A, design="DESIGN.md §4 C01/C02/C04",
   technique="deterministic simulation, fault-free configuration: seed-drawn abstract data set -> real writer -> simulated sink (short writes, EINTR) -> simulated source (short reads, EINTR) -> real reader; independent PS3.5 encoder/parser as reference model",
   text="Fault-free configuration of the data-set transfer whose faulty configurations decide C05/C34. Per run an abstract data set (all non-SQ VRs, empty/single/multi values, sequences to depth 4, private/unknown attributes, native or encapsulated pixel data) is built through the public API, written in Implicit LE / Explicit LE / Explicit BE / Deflated Explicit LE with either explicit-length strategy through a segmenting, interrupting sink, and read back through a segmenting source. Oracles: writing succeeds; the written bytes parse (independent parser) to the same tree as the independent canonical encoding; the real reader yields equal objects for written and canonical bytes; the object read back has the structure of the abstract data set (items, fragments, offset table).",
   note="The verdict rests mostly on workload + independent oracle; the simulator contributes segmentation, interruption and byte accounting (said plainly: this is the fault-free baseline, not a schedule-dependent property). Object equality is structural (dicom-rs' own == is false for any undefined-length sequence). Items built through the API always have undefined length. Deflated runs without EINTR (flate2 does not retry it; see the C34 known finding). Floats are finite."),
 "C02": dict(level="exploration", engine=ENG_A, design="DESIGN.md §4 C01/C02/C04",
   technique="deterministic simulation, fault-free configuration: independent canonical stream -> simulated source -> real reader -> real writer (NoChange / default) -> simulated sink; bytes in == bytes out",
   text="Canonical streams from the independent PS3.5 encoder (defined and undefined sequence/item lengths, encapsulated pixel data with empty/non-empty offset tables and zero-length fragments) are read by the real reader through a segmenting, interrupting source and rewritten by the real writer through a segmenting, interrupting sink; the bytes the sink accepted must equal the input exactly (NoChange always; default settings too when every container is undefined-length).",
   note="Same remark as C01: fault-free baseline; trusted base is the independent encoder in sim/dcmref."),
 "C04": dict(level="exploration", engine=ENG_A, design="DESIGN.md §4 C01/C02/C04",
   technique="deterministic simulation, fault-free configuration: every byte a simulated sink accepted from the real writers is parsed by an independent PS3.5 parser; encoder byte counters compared with the sink's own count after every call",
   text="Every stream the real data-set and file writers emit into the simulated sink (all writable syntaxes incl. deflated, both strategies, complete files with meta group) must parse with the independent PS3.5 parser: even exact lengths, containers end where declared, delimiters, VR-specific padding, fixed-width multiples, meta group length covering exactly group 0002. StatefulEncoder::bytes_written() must equal the number of bytes the sink accepted after every header/value/delimiter call under short writes and EINTR.",
   note="Same remark as C01. The Python parser mentioned in the property text is replaced by the Rust one in sim/dcmref (no dicom-rs dependency)."),
 "C25": dict(level="fault_enumeration", engine=ENG_A, design="DESIGN.md §4 C25",
   technique="deterministic simulation with fault enumeration: generated PDU values; connection lost at every byte offset of the encoding (exhaustive <= 8 KiB, sampled above) through read_pdu and through read_pdu_from_wire over a simulated transport; independent PS3.8 parser as oracle",
   text="For each generated PDU (all variants, all user-information sub-items, up to 128 presentation contexts, sub-items up to 70 kB) the real write_pdu output is checked by an independent PS3.8 parser (every length field exact, content equal), read back by read_pdu with trailing bytes untouched, and the transport is cut after every byte offset (exhaustive for encodings <= 8 KiB): every strict prefix must read as incomplete / 'connection closed', never as an error or another PDU. Items that cannot be expressed in a 16-bit length must make write_pdu fail. Strict-mode maximum checked at the boundary.",
   note="Trusted: independent PS3.8 encoder/parser in sim/dcmref. Strings stay inside the documented repertoires (no edge whitespace; AE titles <= 16 chars, compared modulo space padding). Cut offsets above 8 KiB are sampled (first 64, last 16, 432 random)."),
 "C27": dict(level="exploration", engine=ENG_B, design="DESIGN.md §4 C27",
   technique="deterministic simulation: seeded segmentation/coalescing schedules (1-byte reads, cuts in headers, several PDUs per read, async Pending) of a PDU stream into the real receivers and, at the libc socket seam, into the four real establish*() bodies followed by receive(); history oracle: n receives = the n PDUs in order, then closed",
   text="Seeded search over PDU sequences (1-8 PDUs of every type) x transport segmentations. The real read_pdu_from_wire / read_pdu_from_wire_async with their persistent read buffer must return exactly the sequence sent, in order, nothing lost or duplicated, and report the connection closed afterwards, under any split/coalescing schedule the seed produces.",
   note="Two levels. Level 1: the generic receivers over a simulated source (sender = independent PS3.8 encoder). Level 2 (network simulation at the libc socket seam): the same sequences are sent right behind the A-ASSOCIATE-RQ towards a real acceptor, or right behind the A-ASSOCIATE-AC towards a real requestor, so that leftover bytes exist at the moment establish / establish_async (server and client: four real constructor bodies) hand their read buffer to the association; receive() n times must return the n PDUs, then 'connection closed'."),
 "C26": dict(level="exploration", engine=ENG_A, design="DESIGN.md §4 C26",
   technique="deterministic simulation: seeded PRNG tape drives payload/chunking and a simulated transport (short writes, EINTR, Pending/spurious wake, arbitrary read segmentation); real P-DATA writers/reader; independent PS3.8 framing oracle; tape shrinking + exact replay",
   text="Seeded search over (max PDU length, payload, write chunking) x transport schedules. Every run executes the real PDataWriter / AsyncPDataWriter / PDataReader against a simulated transport whose every short write, EINTR, Pending and read segmentation is drawn from the seed; the bytes the transport accepted are framed by an independent PS3.8 parser (PDU length <= max, one PDV, context, last flag only on the final PDU, payload concatenation), async output must equal sync output, the reader must return exactly the payload and leave following PDUs intact. Sampling, not proof: a clean batch is evidence.",
   note="Trusted: the independent PS3.8 encoder/parser in sim/dcmref (no dicom-rs dependency); the manual poller (a Pending with no registered waker is reported as a lost wake-up). Reader inputs are restricted to streams a conforming writer emits (one PDV per PDU, non-final fragments non-empty). AsyncPDataWriter::drop is exercised inside an entered (not running) multi-thread tokio runtime with Pending switched off for the drop."),
}

def main():
    props = [json.loads(l) for l in open('/verif/properties.jsonl')]
    ids = [p['id'] for p in props]
    hook_commits = subprocess.run(["git", "-C", "/repo", "log", "--format=%h %s", "--grep=^verif hook"], capture_output=True, text=True).stdout.strip().splitlines()
    checks = []
    for pid in ids:
        if pid in CHECKS:
            c = CHECKS[pid]
            checks.append({
                "property_id": pid,
                "quick_cmd": f"./check {pid} --tier quick",
                "thorough_cmd": f"./check {pid} --tier thorough",
                "evidence_file": f"/verif/evidence/{pid}.json",
                "replay_cmd_template": "./check --replay {path}",
                "engine": c["engine"],
                "level_claimed": {"category": c["level"], "text": c["text"], "design_ref": c["design"]},
                "level_note": c["note"],
                "technique": c["technique"],
            })
    na = []
    for pid in ids:
        if pid in CHECKS:
            continue
        if pid in NA:
            na.append({"property_id": pid, "reason": "not applicable to deterministic simulation: " + NA[pid]})
        else:
            na.append({"property_id": pid, "reason": PENDING.get(pid, "claimed in DESIGN.md; its simulated check is not built yet in this tree, so nothing is claimed for it")})
    m = {
        "version": 1,
        "setup_cmd": "cd /verif/sim && CARGO_NET_OFFLINE=true cargo build --release --offline",
        "hooks": {
            "guard": "--cfg dicom_verif (rustc cfg flag)",
            "enable": "RUSTFLAGS via /verif/sim/.cargo/config.toml: [build] rustflags = [\"--cfg\", \"dicom_verif\"]; the sim workspace depends on /repo's crates by path, so every ./check rebuilds from /repo's working tree",
            "baseline_off_cmd": "cd /repo && cargo test --workspace --no-fail-fast --offline",
            "source_commits": [c.split()[0] for c in hook_commits],
            "add_only": True,
        },
        "engines": [
            {"name": ENG_A, "path": "/verif/sim/dcmsim/src/simio.rs", "serves_properties": [p for p, c in CHECKS.items() if c["engine"] == ENG_A],
             "kind_free_text": "single-threaded deterministic simulation of Read/Write/Seek/AsyncRead/AsyncWrite seams with fault injection; every decision from a recorded PRNG tape; manual future poller"},
            {"name": ENG_B, "path": "/verif/sim/dcmsim/src/simnet.rs", "serves_properties": sorted([p for p, c in CHECKS.items() if c["engine"] == ENG_B] + ["C34"]),
             "kind_free_text": "multi-node deterministic network simulation at the libc socket seam (interposed recv/send/epoll_wait/connect/...): real association code and tools as nodes, one runnable at a time, seeded scheduler decides interleaving, segmentation and connection faults"},
        ],
        "checks": checks,
        "not_applicable": na,
        "notes": "Technique family: deterministic simulation with fault injection. One driver: ./check <ID> [--tier quick|thorough]; exit 0 held / only KNOWN-FINDING lines, exit 1 with 'VIOLATION property=<ID> replay=<path>', exit 2 harness error. Replays: ./check --replay <path>. Known findings: /verif/known_findings.jsonl. Seeded breakages: /verif/seeded/. See DESIGN.md.",
    }
    json.dump(m, open('/verif/MANIFEST.json', 'w'), indent=1)
    print("MANIFEST.json written:", len(checks), "checks,", len(na), "not applicable/unclaimed")

if __name__ == '__main__':
    main()
