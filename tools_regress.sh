#!/bin/bash
# tools_regress.sh [commit ...]
# Sensitivity catalogue: every "fix:" commit made in /repo is reverted on the working tree
# (git apply -R of that commit's own diff), the check of the property it was found by is run,
# and the run must report a VIOLATION (exit 1). The working tree is restored afterwards.
# Results: /verif/mutants/regress_results.txt
set -u
MAP="
434011e C26
fc3dcd0 C25
3fd7f3d C02
b037ebc C07
e0316a1 C09
f89b09e C06
8074f74 C06
0e00028 C06
2c2eb48 C06
b799cfa C05
7cc9acc C05
8377c97 C05
5738063 C05
416e3fe C05
c2ef9e3 C05
cd7ea18 C05
be0a804 C05
dc8a5a8 C29
44b64a4 C32
a3f27b2 C33
d1f1709 C33
"
OUT=/verif/mutants/regress_results.txt
mkdir -p /verif/mutants
if [ -n "$(git -C /repo status --porcelain)" ]; then echo "/repo working tree is not clean"; exit 2; fi
[ $# -eq 0 ] && : > $OUT
echo "$MAP" | while read c chk; do
  [ -z "$c" ] && continue
  if [ $# -gt 0 ] && ! echo "$@" | grep -qw "$c"; then continue; fi
  git -C /repo diff $c~1 $c > /tmp/regress_$c.diff
  if ! git -C /repo apply -R /tmp/regress_$c.diff 2>/dev/null; then
    if ! git -C /repo apply -R --3way /tmp/regress_$c.diff >/dev/null 2>&1; then
      echo "$c $chk revert-does-not-apply (later commits changed the same lines)" | tee -a $OUT
      git -C /repo checkout -q -- . ; git -C /repo reset -q --hard HEAD
      continue
    fi
  fi
  VERIF_EVIDENCE_DIR=/tmp/verif_scratch_evidence /verif/check $chk --tier quick > /tmp/regress_$c.log 2>&1; E=$?
  V=$(grep -c "^VIOLATION" /tmp/regress_$c.log)
  CLS=$(grep -h "^violation" /tmp/regress_$c.log | sed -e 's/.*class="\([^"]*\)".*/\1/' | sort -u | head -4 | tr '\n' ' ')
  git -C /repo checkout -q -- . ; git -C /repo reset -q --hard HEAD
  if [ $E -eq 1 ] && [ $V -gt 0 ]; then R=detected; else R="MISSED(exit=$E)"; fi
  echo "$c $chk $R violations=$V classes: $CLS" | tee -a $OUT
  rm -f /tmp/regress_$c.diff /tmp/regress_$c.log
done
# leave the evidence files of the unchanged tree in place: re-run the touched checks
echo "re-running the checks on the restored tree so that evidence/ describes the unchanged tree"
for chk in $(echo "$MAP" | awk '{print $2}' | sort -u); do
  /verif/check $chk --tier quick > /dev/null 2>&1 || echo "check $chk does not pass on the restored tree!"
done
