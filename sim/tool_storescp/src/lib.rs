//! storescp as a library: the tool's own source files, unmodified, plus two
//! entry points that hand one accepted connection to the real per-connection
//! bodies (`run_store_sync`, `run_store_async`) with arguments parsed by the
//! tool's own clap definition.
#![allow(dead_code, unused_imports)]

include!("/repo/storescp/src/main.rs");

/// run the synchronous per-connection body on an accepted stream
pub fn serve_sync(stream: std::net::TcpStream, args: &[String]) -> Result<(), String> {
    let app = App::try_parse_from(args).map_err(|e| e.to_string())?;
    run_store_sync(stream, &app).map_err(|e| snafu::Report::from_error(e).to_string())
}

/// run the asynchronous per-connection body on an accepted stream
pub async fn serve_async(stream: tokio::net::TcpStream, args: &[String]) -> Result<(), String> {
    let app = App::try_parse_from(args).map_err(|e| e.to_string())?;
    run_store_async(stream, &app).await.map_err(|e| snafu::Report::from_error(e).to_string())
}
