//! Independent PS3.5 data-set model, generator, canonical encoder (with a
//! layout map) and structural parser. Written from PS3.5 §7, not from dicom-rs.

use simcore::Tape;

pub type Tag = (u16, u16);
pub const PIXEL_DATA: Tag = (0x7FE0, 0x0010);
pub const ITEM: Tag = (0xFFFE, 0xE000);
pub const ITEM_DELIM: Tag = (0xFFFE, 0xE00D);
pub const SEQ_DELIM: Tag = (0xFFFE, 0xE0DD);
pub const UNDEF: u32 = 0xFFFF_FFFF;

#[derive(Clone, Copy, Debug, PartialEq, Eq)]
pub enum Syntax {
    ImplicitLE,
    ExplicitLE,
    ExplicitBE,
}

impl Syntax {
    pub fn be(self) -> bool {
        matches!(self, Syntax::ExplicitBE)
    }
    pub fn explicit(self) -> bool {
        !matches!(self, Syntax::ImplicitLE)
    }
    pub fn uid(self) -> &'static str {
        match self {
            Syntax::ImplicitLE => "1.2.840.10008.1.2",
            Syntax::ExplicitLE => "1.2.840.10008.1.2.1",
            Syntax::ExplicitBE => "1.2.840.10008.1.2.2",
        }
    }
    pub fn name(self) -> &'static str {
        match self {
            Syntax::ImplicitLE => "ImplicitLE",
            Syntax::ExplicitLE => "ExplicitLE",
            Syntax::ExplicitBE => "ExplicitBE",
        }
    }
}

#[derive(Clone, Debug, PartialEq)]
pub enum Prim {
    /// text value, values already joined with '\\', unpadded
    Text(Vec<u8>),
    U16(Vec<u16>),
    I16(Vec<i16>),
    U32(Vec<u32>),
    I32(Vec<i32>),
    U64(Vec<u64>),
    I64(Vec<i64>),
    /// IEEE bit patterns
    F32(Vec<u32>),
    F64(Vec<u64>),
    At(Vec<Tag>),
    /// OB / UN
    Bytes(Vec<u8>),
    /// exact value bytes, declared as they are (no padding): used to build
    /// streams with odd declared lengths for any VR
    Raw(Vec<u8>),
}

#[derive(Clone, Debug, PartialEq)]
pub struct Item {
    pub elems: Vec<Elem>,
    pub undef: bool,
}

#[derive(Clone, Debug, PartialEq)]
pub enum Val {
    Prim(Prim),
    Seq { items: Vec<Item>, undef: bool },
    /// encapsulated pixel data: basic offset table entries, fragments
    Frags { bot: Vec<u32>, frags: Vec<Vec<u8>> },
}

#[derive(Clone, Debug, PartialEq)]
pub struct Elem {
    pub tag: Tag,
    pub vr: [u8; 2],
    pub val: Val,
}

pub fn vr_str(vr: &[u8; 2]) -> &str {
    std::str::from_utf8(vr).unwrap_or("??")
}

/// VRs whose explicit header uses the 2 reserved bytes + 32-bit length form
pub fn long_form(vr: &[u8; 2]) -> bool {
    matches!(
        vr,
        b"OB" | b"OD" | b"OF" | b"OL" | b"OV" | b"OW" | b"SQ" | b"UC" | b"UN" | b"UR" | b"UT" | b"SV" | b"UV"
    )
}

/// padding byte for an odd-length value of this VR
pub fn pad_byte(vr: &[u8; 2]) -> u8 {
    match vr {
        b"UI" | b"OB" | b"UN" => 0,
        _ => b' ',
    }
}

/// unit size of fixed-width binary VRs (0 = not fixed-width)
pub fn unit(vr: &[u8; 2]) -> usize {
    match vr {
        b"US" | b"SS" | b"OW" => 2,
        b"UL" | b"SL" | b"FL" | b"OF" | b"OL" | b"AT" => 4,
        b"FD" | b"OD" | b"UV" | b"SV" | b"OV" => 8,
        _ => 0,
    }
}

pub fn is_text_vr(vr: &[u8; 2]) -> bool {
    matches!(
        vr,
        b"AE" | b"AS" | b"CS" | b"DA" | b"DS" | b"DT" | b"IS" | b"LO" | b"LT" | b"PN" | b"SH" | b"ST" | b"TM" | b"UC" | b"UI" | b"UR" | b"UT"
    )
}

// ------------------------------------------------------------------ encode

#[derive(Clone, Copy, Debug, PartialEq, Eq)]
pub enum FieldKind {
    Tag,
    Vr,
    Len16,
    Len32,
    Value,
    ItemHeader,
    ItemLen,
    Delim,
}

#[derive(Clone, Copy, Debug)]
pub struct Field {
    pub kind: FieldKind,
    pub off: usize,
    pub len: usize,
    pub depth: u8,
}

/// what a declared length belongs to
#[derive(Clone, Copy, Debug, PartialEq, Eq)]
pub enum LenKind {
    Prim,
    Seq,
    Item,
    /// basic offset table item of encapsulated pixel data
    Bot,
    /// pixel data fragment item
    Frag,
}

/// one declared length of the stream, in stream order
#[derive(Clone, Copy, Debug)]
pub struct LenRec {
    pub off: usize,
    pub declared: u32,
    pub kind: LenKind,
    pub tag: Tag,
}

#[derive(Default, Clone, Debug)]
pub struct Layout {
    pub fields: Vec<Field>,
    /// every declared length (element, sequence, item, fragment), in stream order
    pub lens: Vec<LenRec>,
}

struct Enc {
    out: Vec<u8>,
    be: bool,
    explicit: bool,
    layout: Layout,
    depth: u8,
    /// override: force every sequence / item to undefined (Some(true)),
    /// defined (Some(false)) or as the model says (None)
    force_undef: Option<bool>,
    /// follow every odd `Raw` value by one pad byte that its declared length
    /// does not count ("odd length field, padded value" streams)
    hidden_pad: bool,
    /// fragments of odd length are written as they are (followed by a hidden
    /// pad byte when `hidden_pad`)
    odd_frags: bool,
    /// with `hidden_pad`: bit set chosen by the caller; a defined-length item or
    /// sequence whose content is R > 0 bytes declares R - 1 (odd; a reader that
    /// rounds odd lengths up lands on R) when its bit is set
    odd_containers: u64,
}

impl Enc {
    fn sub(&self, depth: u8) -> Enc {
        Enc {
            out: Vec::new(),
            be: self.be,
            explicit: self.explicit,
            layout: Layout::default(),
            depth,
            force_undef: self.force_undef,
            hidden_pad: self.hidden_pad,
            odd_frags: self.odd_frags,
            odd_containers: self.odd_containers,
        }
    }
    /// note the length field pushed last
    fn len_rec(&mut self, kind: LenKind, tag: Tag, declared: u32) {
        let off = self.layout.fields.last().map(|f| f.off).unwrap_or(0);
        self.layout.lens.push(LenRec { off, declared, kind, tag });
    }
    fn merge(&mut self, inner: Enc) {
        let base = self.out.len();
        self.out.extend_from_slice(&inner.out);
        for mut f in inner.layout.fields {
            f.off += base;
            self.layout.fields.push(f);
        }
        for mut l in inner.layout.lens {
            l.off += base;
            self.layout.lens.push(l);
        }
    }
    fn container_len(&self, real: usize, undef: bool) -> u32 {
        if undef {
            return UNDEF;
        }
        if self.hidden_pad && real > 0 && real % 2 == 0 && (self.odd_containers >> ((real / 2 + self.depth as usize) % 64)) & 1 == 1 {
            return real as u32 - 1;
        }
        real as u32
    }
    fn f(&mut self, kind: FieldKind, off: usize, len: usize) {
        self.layout.fields.push(Field {
            kind,
            off,
            len,
            depth: self.depth,
        });
    }
    fn p16(&mut self, v: u16) {
        if self.be {
            self.out.extend_from_slice(&v.to_be_bytes())
        } else {
            self.out.extend_from_slice(&v.to_le_bytes())
        }
    }
    fn p32(&mut self, v: u32) {
        if self.be {
            self.out.extend_from_slice(&v.to_be_bytes())
        } else {
            self.out.extend_from_slice(&v.to_le_bytes())
        }
    }
    fn p64(&mut self, v: u64) {
        if self.be {
            self.out.extend_from_slice(&v.to_be_bytes())
        } else {
            self.out.extend_from_slice(&v.to_le_bytes())
        }
    }
    fn tag(&mut self, t: Tag) {
        self.p16(t.0);
        self.p16(t.1);
    }
    fn header(&mut self, t: Tag, vr: &[u8; 2], len: u32) -> Result<(), String> {
        let o = self.out.len();
        self.tag(t);
        self.f(FieldKind::Tag, o, 4);
        if self.explicit {
            let o = self.out.len();
            self.out.extend_from_slice(vr);
            self.f(FieldKind::Vr, o, 2);
            if long_form(vr) {
                self.out.extend_from_slice(&[0, 0]);
                let o = self.out.len();
                self.p32(len);
                self.f(FieldKind::Len32, o, 4);
            } else {
                if len > 0xFFFF {
                    return Err(format!("value of {} bytes does not fit the 16-bit length of VR {}", len, vr_str(vr)));
                }
                let o = self.out.len();
                self.p16(len as u16);
                self.f(FieldKind::Len16, o, 2);
            }
        } else {
            let o = self.out.len();
            self.p32(len);
            self.f(FieldKind::Len32, o, 4);
        }
        Ok(())
    }
    fn prim_bytes(&self, vr: &[u8; 2], p: &Prim) -> Vec<u8> {
        let mut e = Enc {
            out: Vec::new(),
            be: self.be,
            explicit: self.explicit,
            layout: Layout::default(),
            depth: 0,
            force_undef: None,
            hidden_pad: false,
            odd_frags: false,
            odd_containers: 0,
        };
        match p {
            Prim::Text(b) | Prim::Bytes(b) => e.out.extend_from_slice(b),
            Prim::Raw(b) => return b.clone(),
            Prim::U16(v) => v.iter().for_each(|x| e.p16(*x)),
            Prim::I16(v) => v.iter().for_each(|x| e.p16(*x as u16)),
            Prim::U32(v) => v.iter().for_each(|x| e.p32(*x)),
            Prim::I32(v) => v.iter().for_each(|x| e.p32(*x as u32)),
            Prim::U64(v) => v.iter().for_each(|x| e.p64(*x)),
            Prim::I64(v) => v.iter().for_each(|x| e.p64(*x as u64)),
            Prim::F32(v) => v.iter().for_each(|x| e.p32(*x)),
            Prim::F64(v) => v.iter().for_each(|x| e.p64(*x)),
            Prim::At(v) => v.iter().for_each(|x| e.tag(*x)),
        }
        if e.out.len() % 2 == 1 {
            e.out.push(pad_byte(vr));
        }
        e.out
    }
    fn elems(&mut self, elems: &[Elem]) -> Result<(), String> {
        for el in elems {
            self.elem(el)?;
        }
        Ok(())
    }
    fn elem(&mut self, el: &Elem) -> Result<(), String> {
        match &el.val {
            Val::Prim(p) => {
                let b = self.prim_bytes(&el.vr, p);
                self.header(el.tag, &el.vr, b.len() as u32)?;
                self.len_rec(LenKind::Prim, el.tag, b.len() as u32);
                let o = self.out.len();
                self.out.extend_from_slice(&b);
                self.f(FieldKind::Value, o, b.len());
                if self.hidden_pad && b.len() % 2 == 1 {
                    self.out.push(pad_byte(&el.vr));
                }
            }
            Val::Seq { items, undef } => {
                let undef = self.force_undef.unwrap_or(*undef);
                // encode content first to know its length
                let mut inner = self.sub(self.depth + 1);
                for it in items {
                    inner.item(it)?;
                }
                let declared = self.container_len(inner.out.len(), undef);
                self.header(el.tag, b"SQ", declared)?;
                self.len_rec(LenKind::Seq, el.tag, declared);
                self.merge(inner);
                if undef {
                    let o = self.out.len();
                    self.tag(SEQ_DELIM);
                    self.p32(0);
                    self.f(FieldKind::Delim, o, 8);
                }
            }
            Val::Frags { bot, frags } => {
                self.header(el.tag, b"OB", UNDEF)?;
                // basic offset table item
                let o = self.out.len();
                self.tag(ITEM);
                self.f(FieldKind::ItemHeader, o, 4);
                let o = self.out.len();
                self.p32((bot.len() * 4) as u32);
                self.f(FieldKind::ItemLen, o, 4);
                self.len_rec(LenKind::Bot, el.tag, (bot.len() * 4) as u32);
                for x in bot {
                    // offset table entries are always little endian in practice (only LE is legal here)
                    self.p32(*x);
                }
                for fr in frags {
                    if fr.len() % 2 == 1 && !self.odd_frags {
                        return Err("odd fragment".into());
                    }
                    let o = self.out.len();
                    self.tag(ITEM);
                    self.f(FieldKind::ItemHeader, o, 4);
                    let o = self.out.len();
                    self.p32(fr.len() as u32);
                    self.f(FieldKind::ItemLen, o, 4);
                    self.len_rec(LenKind::Frag, el.tag, fr.len() as u32);
                    let o = self.out.len();
                    self.out.extend_from_slice(fr);
                    self.f(FieldKind::Value, o, fr.len());
                    if self.hidden_pad && fr.len() % 2 == 1 {
                        self.out.push(0);
                    }
                }
                let o = self.out.len();
                self.tag(SEQ_DELIM);
                self.p32(0);
                self.f(FieldKind::Delim, o, 8);
            }
        }
        Ok(())
    }
    fn item(&mut self, it: &Item) -> Result<(), String> {
        let undef = self.force_undef.unwrap_or(it.undef);
        let mut inner = self.sub(self.depth);
        inner.elems(&it.elems)?;
        let o = self.out.len();
        self.tag(ITEM);
        self.f(FieldKind::ItemHeader, o, 4);
        let o = self.out.len();
        let declared = self.container_len(inner.out.len(), undef);
        self.p32(declared);
        self.f(FieldKind::ItemLen, o, 4);
        self.len_rec(LenKind::Item, ITEM, declared);
        self.merge(inner);
        if undef {
            let o = self.out.len();
            self.tag(ITEM_DELIM);
            self.p32(0);
            self.f(FieldKind::Delim, o, 8);
        }
        Ok(())
    }
}

/// Canonical encoding of a data set. `force_undef`: None = container length
/// forms as recorded in the model.
pub fn encode(elems: &[Elem], syn: Syntax, force_undef: Option<bool>) -> Result<(Vec<u8>, Layout), String> {
    encode_opts(elems, syn, force_undef, false)
}

/// `hidden_pad`: every odd `Raw` value is followed by a pad byte that its
/// declared length does not count.
pub fn encode_opts(elems: &[Elem], syn: Syntax, force_undef: Option<bool>, hidden_pad: bool) -> Result<(Vec<u8>, Layout), String> {
    encode_odd(elems, syn, force_undef, hidden_pad, false, 0)
}

/// Streams with odd declared lengths. `odd_frags`: pixel data fragments of odd
/// length are written as they are. `hidden_pad`: every odd value or fragment is
/// followed by one byte its declared length does not count, and the
/// defined-length items/sequences selected by `odd_containers` declare one
/// byte less than their (even) content.
pub fn encode_odd(elems: &[Elem], syn: Syntax, force_undef: Option<bool>, hidden_pad: bool, odd_frags: bool, odd_containers: u64) -> Result<(Vec<u8>, Layout), String> {
    let mut e = Enc {
        out: Vec::new(),
        be: syn.be(),
        explicit: syn.explicit(),
        layout: Layout::default(),
        depth: 0,
        force_undef,
        hidden_pad,
        odd_frags,
        odd_containers,
    };
    e.elems(elems)?;
    Ok((e.out, e.layout))
}

/// Declared value length of a primitive element in `syn`.
pub fn declared_len(el: &Elem, syn: Syntax) -> Option<u32> {
    match &el.val {
        Val::Prim(p) => {
            let e = Enc {
                out: Vec::new(),
                be: syn.be(),
                explicit: syn.explicit(),
                layout: Layout::default(),
                depth: 0,
                force_undef: None,
                hidden_pad: false,
                odd_frags: false,
                odd_containers: 0,
            };
            Some(e.prim_bytes(&el.vr, p).len() as u32)
        }
        _ => None,
    }
}

// ------------------------------------------------------------------ parse

#[derive(Clone, Debug, PartialEq)]
pub enum PVal {
    Bytes(Vec<u8>),
    Seq(Vec<Vec<PElem>>),
    Frags(Vec<Vec<u8>>),
}

#[derive(Clone, Debug, PartialEq)]
pub struct PElem {
    pub tag: Tag,
    /// VR as found on the wire (explicit syntaxes only)
    pub vr: Option<[u8; 2]>,
    pub val: PVal,
}

struct Par<'a> {
    b: &'a [u8],
    pos: usize,
    be: bool,
    explicit: bool,
    is_seq: &'a dyn Fn(Tag) -> bool,
    vr_of: &'a dyn Fn(Tag) -> Option<[u8; 2]>,
    depth: usize,
}

impl<'a> Par<'a> {
    fn need(&self, n: usize, what: &str) -> Result<(), String> {
        if self.b.len() - self.pos < n {
            return Err(format!("at {}: {} needs {} bytes, {} left", self.pos, what, n, self.b.len() - self.pos));
        }
        Ok(())
    }
    fn g16(&mut self) -> u16 {
        let x = [self.b[self.pos], self.b[self.pos + 1]];
        self.pos += 2;
        if self.be {
            u16::from_be_bytes(x)
        } else {
            u16::from_le_bytes(x)
        }
    }
    fn g32(&mut self) -> u32 {
        let x = [self.b[self.pos], self.b[self.pos + 1], self.b[self.pos + 2], self.b[self.pos + 3]];
        self.pos += 4;
        if self.be {
            u32::from_be_bytes(x)
        } else {
            u32::from_le_bytes(x)
        }
    }
    fn gtag(&mut self) -> Tag {
        (self.g16(), self.g16())
    }

    /// parse elements until `end` (absolute) or until an item/sequence
    /// delimiter is met when `end` is None and `stop_on` is set
    fn elems(&mut self, end: Option<usize>, stop_on: Option<Tag>) -> Result<Vec<PElem>, String> {
        let mut v = Vec::new();
        let mut last: Option<Tag> = None;
        loop {
            match end {
                Some(e) => {
                    if self.pos == e {
                        return Ok(v);
                    }
                    if self.pos > e {
                        return Err(format!("at {}: content overruns its container (declared end {})", self.pos, e));
                    }
                }
                None => {
                    if stop_on.is_none() && self.pos == self.b.len() {
                        return Ok(v);
                    }
                }
            }
            self.need(8, "element header")?;
            let start = self.pos;
            let tag = self.gtag();
            if Some(tag) == stop_on && end.is_none() {
                let l = self.g32();
                if l != 0 {
                    return Err(format!("at {}: delimiter with non-zero length {}", start, l));
                }
                return Ok(v);
            }
            if tag.0 == 0xFFFE {
                return Err(format!("at {}: unexpected item/delimiter tag ({:04X},{:04X})", start, tag.0, tag.1));
            }
            if let Some(l) = last {
                if tag <= l {
                    return Err(format!("at {}: tag ({:04X},{:04X}) not in ascending order", start, tag.0, tag.1));
                }
            }
            last = Some(tag);
            let (vr, len) = if self.explicit {
                let vr = [self.b[self.pos], self.b[self.pos + 1]];
                self.pos += 2;
                if !vr.iter().all(|c| c.is_ascii_uppercase()) {
                    return Err(format!("at {}: invalid VR bytes {:02X?}", start, vr));
                }
                if long_form(&vr) {
                    self.need(6, "32-bit length form")?;
                    let r = self.g16();
                    if r != 0 {
                        return Err(format!("at {}: reserved bytes of VR {} header are {:04X}", start, vr_str(&vr), r));
                    }
                    (Some(vr), self.g32())
                } else {
                    (Some(vr), self.g16() as u32)
                }
            } else {
                (None, self.g32())
            };
            let eff_vr = vr.or_else(|| (self.vr_of)(tag));
            let is_sq = match vr {
                Some(v) => &v == b"SQ",
                None => (len == UNDEF && tag != PIXEL_DATA) || (self.is_seq)(tag),
            };
            if is_sq {
                let items = self.items(if len == UNDEF { None } else { Some(self.pos + len as usize) }, len, start)?;
                v.push(PElem {
                    tag,
                    vr,
                    val: PVal::Seq(items),
                });
            } else if len == UNDEF {
                // encapsulated pixel data
                let mut frags = Vec::new();
                loop {
                    self.need(8, "fragment item header")?;
                    let s = self.pos;
                    let t = self.gtag();
                    let l = self.g32();
                    if t == SEQ_DELIM {
                        if l != 0 {
                            return Err(format!("at {}: sequence delimiter with length {}", s, l));
                        }
                        break;
                    }
                    if t != ITEM {
                        return Err(format!("at {}: ({:04X},{:04X}) inside a fragment sequence", s, t.0, t.1));
                    }
                    if l == UNDEF {
                        return Err(format!("at {}: fragment with undefined length", s));
                    }
                    if l % 2 == 1 {
                        return Err(format!("at {}: fragment with odd length {}", s, l));
                    }
                    self.need(l as usize, "fragment")?;
                    frags.push(self.b[self.pos..self.pos + l as usize].to_vec());
                    self.pos += l as usize;
                }
                v.push(PElem {
                    tag,
                    vr,
                    val: PVal::Frags(frags),
                });
            } else {
                if len % 2 == 1 {
                    return Err(format!("at {}: element ({:04X},{:04X}) has odd length {}", start, tag.0, tag.1, len));
                }
                self.need(len as usize, "element value")?;
                if let Some(e) = end {
                    if self.pos + len as usize > e {
                        return Err(format!("at {}: element ({:04X},{:04X}) of length {} overruns its container (end {})", start, tag.0, tag.1, len, e));
                    }
                }
                let val = self.b[self.pos..self.pos + len as usize].to_vec();
                self.pos += len as usize;
                if let Some(evr) = eff_vr {
                    let u = unit(&evr);
                    if u > 0 && val.len() % u != 0 {
                        return Err(format!("at {}: {} value length {} is not a multiple of {}", start, vr_str(&evr), val.len(), u));
                    }
                }
                v.push(PElem {
                    tag,
                    vr,
                    val: PVal::Bytes(val),
                });
            }
        }
    }

    fn items(&mut self, end: Option<usize>, len: u32, start: usize) -> Result<Vec<Vec<PElem>>, String> {
        self.depth += 1;
        if self.depth > 64 {
            return Err("nesting deeper than 64".into());
        }
        if let Some(e) = end {
            if e > self.b.len() {
                return Err(format!("at {}: sequence length {} overruns the stream", start, len));
            }
        }
        let mut items = Vec::new();
        loop {
            if let Some(e) = end {
                if self.pos == e {
                    break;
                }
                if self.pos > e {
                    return Err(format!("at {}: items overrun the sequence end {}", self.pos, e));
                }
            }
            self.need(8, "item header")?;
            let s = self.pos;
            let t = self.gtag();
            let l = self.g32();
            if t == SEQ_DELIM {
                if end.is_some() {
                    return Err(format!("at {}: sequence delimiter inside a defined-length sequence", s));
                }
                if l != 0 {
                    return Err(format!("at {}: sequence delimiter with length {}", s, l));
                }
                break;
            }
            if t != ITEM {
                return Err(format!("at {}: ({:04X},{:04X}) where an item is expected", s, t.0, t.1));
            }
            let elems = if l == UNDEF {
                self.elems(None, Some(ITEM_DELIM))?
            } else {
                let e = self.pos + l as usize;
                if e > self.b.len() || end.map(|x| e > x).unwrap_or(false) {
                    return Err(format!("at {}: item length {} overruns its container", s, l));
                }
                self.elems(Some(e), None)?
            };
            items.push(elems);
        }
        self.depth -= 1;
        Ok(items)
    }
}

/// Structural parse of a complete data-set stream.
pub fn parse(
    bytes: &[u8],
    syn: Syntax,
    is_seq: &dyn Fn(Tag) -> bool,
    vr_of: &dyn Fn(Tag) -> Option<[u8; 2]>,
) -> Result<Vec<PElem>, String> {
    let mut p = Par {
        b: bytes,
        pos: 0,
        be: syn.be(),
        explicit: syn.explicit(),
        is_seq,
        vr_of,
        depth: 0,
    };
    p.elems(None, None)
}

/// Check VR-specific padding of every odd-content value: for text VRs the
/// final byte of an even-length value whose content is odd cannot be told
/// apart from content, so this checks only that a trailing NUL never ends a
/// text value (other than UI) and a trailing space never ends a UI value.
pub fn check_padding(elems: &[PElem], vr_of: &dyn Fn(Tag) -> Option<[u8; 2]>) -> Result<(), String> {
    for e in elems {
        match &e.val {
            PVal::Bytes(b) => {
                if let Some(vr) = e.vr.or_else(|| vr_of(e.tag)) {
                    if let Some(&last) = b.last() {
                        if &vr == b"UI" && last == b' ' {
                            return Err(format!("UI value of ({:04X},{:04X}) padded with a space", e.tag.0, e.tag.1));
                        }
                        if is_text_vr(&vr) && &vr != b"UI" && last == 0 {
                            return Err(format!("{} value of ({:04X},{:04X}) padded with NUL", vr_str(&vr), e.tag.0, e.tag.1));
                        }
                    }
                }
            }
            PVal::Seq(items) => {
                for it in items {
                    check_padding(it, vr_of)?;
                }
            }
            PVal::Frags(_) => {}
        }
    }
    Ok(())
}

/// All sequence tags of a model (for parsing Implicit VR streams of it).
pub fn seq_tags(elems: &[Elem], out: &mut Vec<Tag>) {
    for e in elems {
        if let Val::Seq { items, .. } = &e.val {
            out.push(e.tag);
            for it in items {
                seq_tags(&it.elems, out);
            }
        }
    }
}

pub fn vr_map(elems: &[Elem], out: &mut Vec<(Tag, [u8; 2])>) {
    for e in elems {
        out.push((e.tag, e.vr));
        if let Val::Seq { items, .. } = &e.val {
            for it in items {
                vr_map(&it.elems, out);
            }
        }
    }
}

/// tag -> VR for tags that carry one single VR throughout the model
pub fn unambiguous_vr_map(elems: &[Elem]) -> Vec<(Tag, [u8; 2])> {
    let mut all = Vec::new();
    vr_map(elems, &mut all);
    let mut out: Vec<(Tag, [u8; 2])> = Vec::new();
    let mut bad: Vec<Tag> = Vec::new();
    for (t, v) in all {
        match out.iter().find(|x| x.0 == t) {
            Some(x) if x.1 != v => bad.push(t),
            Some(_) => {}
            None => out.push((t, v)),
        }
    }
    out.retain(|x| !bad.contains(&x.0));
    out
}

// ------------------------------------------------------------------ generate

/// (group, element, VR, multi-valued allowed)
pub const STD_TAGS: &[(u16, u16, &[u8; 2], bool)] = &[
    (0x0008, 0x0054, b"AE", true),
    (0x0008, 0x0055, b"AE", false),
    (0x0010, 0x1010, b"AS", false),
    (0x0072, 0x005F, b"AS", true),
    (0x0028, 0x0009, b"AT", true),
    (0x0020, 0x9165, b"AT", false),
    (0x0008, 0x0008, b"CS", true),
    (0x0008, 0x0060, b"CS", false),
    (0x0008, 0x0020, b"DA", false),
    (0x0018, 0x1200, b"DA", true),
    (0x0008, 0x2130, b"DS", true),
    (0x0010, 0x1020, b"DS", false),
    (0x0008, 0x002A, b"DT", false),
    (0x0040, 0xA13A, b"DT", true),
    (0x0008, 0x1163, b"FD", true),
    (0x0018, 0x6054, b"FD", true),
    (0x0018, 0x605A, b"FL", true),
    (0x0008, 0x9459, b"FL", false),
    (0x0008, 0x1160, b"IS", true),
    (0x0020, 0x0013, b"IS", false),
    (0x0008, 0x0070, b"LO", false),
    (0x0010, 0x2000, b"LO", true),
    (0x0010, 0x21B0, b"LT", false),
    (0x0008, 0x0401, b"LT", false),
    (0x0008, 0x041B, b"OB", false),
    (0x0016, 0x002B, b"OB", false),
    (0x0066, 0x0022, b"OD", false),
    (0x0066, 0x0016, b"OF", false),
    (0x0066, 0x0040, b"OL", false),
    (0x0072, 0x0081, b"OV", false),
    (0x0028, 0x1201, b"OW", false),
    (0x0028, 0x1202, b"OW", false),
    (0x0010, 0x0010, b"PN", false),
    (0x0008, 0x1048, b"PN", true),
    (0x0008, 0x0050, b"SH", false),
    (0x0018, 0x1210, b"SH", true),
    (0x0018, 0x6020, b"SL", false),
    (0x0040, 0xA162, b"SL", true),
    (0x0018, 0x9219, b"SS", false),
    (0x0028, 0x9503, b"SS", true),
    (0x0008, 0x0081, b"ST", false),
    (0x0008, 0x0092, b"ST", false),
    (0x0072, 0x0082, b"SV", true),
    (0x0008, 0x0030, b"TM", false),
    (0x0018, 0x1201, b"TM", true),
    (0x0008, 0x0119, b"UC", false),
    (0x0010, 0x2162, b"UC", true),
    (0x0008, 0x0016, b"UI", false),
    (0x0008, 0x0018, b"UI", false),
    (0x0008, 0x001A, b"UI", true),
    (0x0008, 0x1161, b"UL", true),
    (0x0008, 0x0427, b"UL", false),
    (0x0072, 0x006D, b"UN", false),
    (0x0008, 0x010E, b"UR", false),
    (0x0008, 0x0120, b"UR", false),
    (0x0008, 0x0304, b"US", true),
    (0x0028, 0x0010, b"US", false),
    (0x0028, 0x0011, b"US", false),
    // Pixel Representation: the stateful decoder keeps it to resolve "US or SS" attributes
    (0x0028, 0x0103, b"US", false),
    (0x0010, 0x0013, b"UT", false),
    (0x0008, 0x030E, b"UT", false),
    (0x0072, 0x0083, b"UV", true),
    (0x0008, 0x040C, b"UV", false),
];

pub const SEQ_TAGS: &[Tag] = &[
    (0x0008, 0x0006),
    (0x0008, 0x0051),
    (0x0008, 0x1110),
    (0x0008, 0x1140),
    (0x0040, 0x0275),
    (0x0040, 0xA730),
    (0x5200, 0x9229),
    (0x5200, 0x9230),
];

pub const ALL_VRS: &[&[u8; 2]] = &[
    b"AE", b"AS", b"AT", b"CS", b"DA", b"DS", b"DT", b"FL", b"FD", b"IS", b"LO", b"LT", b"OB", b"OD", b"OF", b"OL", b"OV", b"OW", b"PN", b"SH", b"SL", b"SS", b"ST", b"SV", b"TM", b"UC", b"UI", b"UL", b"UN", b"UR", b"US", b"UT", b"UV",
];

fn one_text(t: &mut Tape, vr: &[u8; 2], cs: u8) -> Vec<u8> {
    if cs == 2 && matches!(vr, b"LO" | b"PN" | b"SH" | b"ST" | b"LT" | b"UT" | b"UC") && t.chance(1, 2) {
        // UTF-8 (ISO_IR 192): 2- and 3-byte characters, odd and even byte counts
        let xs: [&str; 6] = ["Müller", "Zoë", "Simões^João", "É", "日本語", "山田^太郎=やまだ^たろう"];
        let mut out = xs[t.below(6) as usize].as_bytes().to_vec();
        if vr != b"PN" {
            out.retain(|c| *c != b'^' && *c != b'=');
        }
        return out;
    }
    if (cs == 3 || cs == 4) && matches!(vr, b"LO" | b"PN" | b"SH" | b"ST" | b"LT" | b"UT" | b"UC") && t.chance(1, 2) {
        // ISO_IR 144 (ISO 8859-5, Cyrillic) and GB18030: fixed samples whose text form is in `charset_samples`
        let k = t.below(3) as usize;
        let pn = vr == b"PN";
        return charset_samples(cs).iter().filter(|x| x.2 == pn).nth(k % 2).map(|x| x.0.to_vec()).unwrap_or_else(|| b"X".to_vec());
    }
    let latin1 = cs == 1;
    if latin1 && matches!(vr, b"LO" | b"PN" | b"SH" | b"ST" | b"LT" | b"UT" | b"UC") && t.chance(1, 2) {
        // ISO 8859-1 bytes: odd and even counts of non-ASCII characters
        let xs: [&[u8]; 5] = [b"M\xFCller", b"Zo\xEB", b"Sim\xF5es^Jo\xE3o", b"\xC9", b"na\xEFve caf\xE9"];
        let mut out = xs[t.below(5) as usize].to_vec();
        if vr != b"PN" {
            out.retain(|c| *c != b'^');
        }
        return out;
    }
    let pick = |t: &mut Tape, xs: &[&str]| xs[t.below(xs.len() as u32) as usize].as_bytes().to_vec();
    match vr {
        b"AE" => pick(t, &["STORE-SCP", "A", "AE TITLE 16 CHAR", "X1"]),
        b"AS" => pick(t, &["045Y", "003M", "012W", "100D"]),
        b"CS" => pick(t, &["ORIGINAL", "PRIMARY", "CT", "A_B 1", "M", "ISO_IR 100X"]),
        b"DA" => pick(t, &["20240131", "19991231", "20000229"]),
        b"DS" => pick(t, &["1.5", "-0.25", "1e3", "+12.500", "0", "3.141592653589793", "-1.5E-10"]),
        b"DT" => pick(t, &["20240131235959.123456+0100", "2024", "202401311200", "20240131120000-0500", "20240131120000.5", "20240131235959.123", "202401+0000"]),
        b"IS" => pick(t, &["1", "-123", "+7", "2147483647", "0"]),
        b"LO" => pick(t, &["ACME Medical", "x", "Long string with spaces, and punctuation!", "odd"]),
        b"PN" => pick(t, &["Doe^John", "Doe^John^^Dr.^Jr", "X", "Yamada^Tarou=a^b", "Single"]),
        b"SH" => pick(t, &["ACC-1", "S", "SIXTEEN CHARS 16", "odd"]),
        b"TM" => pick(t, &["235959.123456", "1200", "09", "120000.5", "0101", "070809", "235959.123"]),
        b"UC" => pick(t, &["Unlimited characters value", "u", "odd", "An even longer unlimited characters value with no practical limit at all"]),
        b"UI" => pick(t, &["1.2.840.10008.5.1.4.1.1.7", "1.2.3", "1.2.840.113619.2.1.1.1762861231.1.12345", "2.25.1", "1.2.3.4"]),
        b"UR" => pick(t, &["http://example.org/a/b?c=d", "urn:oid:1.2.3", "x:y"]),
        b"LT" | b"ST" | b"UT" => pick(t, &["Free text.\r\nSecond line", "with \\ backslash", "x", "odd", "a somewhat longer paragraph of text, to be sure"]),
        _ => b"X".to_vec(),
    }
}

fn gen_prim(t: &mut Tape, vr: &[u8; 2], multi_ok: bool, cs: u8) -> Prim {
    // number of values: 0 (empty), 1, or several
    let n = match t.weighted(&[5, 1, if multi_ok { 3 } else { 0 }]) {
        0 => 1,
        1 => 0,
        _ => 2 + t.below(4) as usize,
    };
    let fl32: [u32; 6] = [0, 0x3F80_0000, 0xBF80_0000, 0x4048_F5C3, 0x7F7F_FFFF, 0x0000_0001];
    let fl64: [u64; 5] = [0, 0x3FF0_0000_0000_0000, 0xC000_0000_0000_0000, 0x4009_21FB_5444_2D18, 0x7FEF_FFFF_FFFF_FFFF];
    match vr {
        b"US" => Prim::U16((0..n).map(|_| [0u16, 1, 512, 65535][t.below(4) as usize]).collect()),
        b"SS" => Prim::I16((0..n).map(|_| [0i16, -1, 300, i16::MIN][t.below(4) as usize]).collect()),
        b"UL" => Prim::U32((0..n).map(|_| [0u32, 1, 70000, u32::MAX][t.below(4) as usize]).collect()),
        b"SL" => Prim::I32((0..n).map(|_| [0i32, -1, 70000, i32::MIN][t.below(4) as usize]).collect()),
        b"UV" => Prim::U64((0..n).map(|_| [0u64, 1, 1 << 40, u64::MAX][t.below(4) as usize]).collect()),
        b"SV" => Prim::I64((0..n).map(|_| [0i64, -1, 1 << 40, i64::MIN][t.below(4) as usize]).collect()),
        b"FL" => Prim::F32((0..n).map(|_| fl32[t.below(6) as usize]).collect()),
        b"FD" => Prim::F64((0..n).map(|_| fl64[t.below(5) as usize]).collect()),
        b"AT" => Prim::At((0..n).map(|_| [(0x0010u16, 0x0010u16), (0x7FE0, 0x0010), (0x0008, 0x0018)][t.below(3) as usize]).collect()),
        b"OW" => {
            let k = if n == 0 { 0 } else { 1 + t.below(20) as usize };
            Prim::U16((0..k).map(|i| (i as u16).wrapping_mul(257).wrapping_add(t.below(3) as u16)).collect())
        }
        b"OF" => Prim::F32((0..if n == 0 { 0 } else { 1 + t.below(6) as usize }).map(|_| fl32[t.below(6) as usize]).collect()),
        b"OD" => Prim::F64((0..if n == 0 { 0 } else { 1 + t.below(4) as usize }).map(|_| fl64[t.below(5) as usize]).collect()),
        b"OL" => Prim::U32((0..if n == 0 { 0 } else { 1 + t.below(6) as usize }).map(|i| 0x0102_0304u32.wrapping_mul(i as u32 + 1)).collect()),
        b"OV" => Prim::U64((0..if n == 0 { 0 } else { 1 + t.below(4) as usize }).map(|i| 0x0102_0304_0506_0708u64.wrapping_mul(i as u64 + 1)).collect()),
        b"OB" | b"UN" => {
            let k = if n == 0 { 0 } else { 1 + t.below(40) as usize };
            let mut b = simcore::pattern_bytes(1 + t.below(3), k);
            // a trailing NUL would be indistinguishable from padding
            if let Some(l) = b.last_mut() {
                if *l == 0 {
                    *l = 0x5A;
                }
            }
            Prim::Bytes(b)
        }
        _ => {
            let mut out = Vec::new();
            // in a multi-valued text value single values may be empty (leading, inner or trailing), not all of them
            let hollow = n >= 2 && t.chance(1, 5);
            let keep = if hollow { t.below(n as u32) as usize } else { 0 };
            for i in 0..n {
                if i > 0 {
                    out.push(b'\\');
                }
                if hollow && i != keep && t.chance(1, 2) {
                    continue;
                }
                out.extend_from_slice(&one_text(t, vr, cs));
            }
            Prim::Text(out)
        }
    }
}

/// (encoded bytes, text, is a person name) of the non-Latin sample values; cs 3 = ISO_IR 144, 4 = GB18030
pub fn charset_samples(cs: u8) -> &'static [(&'static [u8], &'static str, bool)] {
    match cs {
        3 => &[
            (b"\xB8\xD2\xD0\xDD\xDE\xD2", "Иванов", false),
            (b"\xBC\xDE\xE1\xDA\xD2\xD0 1", "Москва 1", false),
            (b"\xB8\xD2\xD0\xDD\xDE\xD2^\xB8\xD2\xD0\xDD", "Иванов^Иван", true),
            (b"\xBF\xD5\xE2\xE0\xDE\xD2", "Петров", true),
        ],
        4 => &[
            (b"\xCD\xF5\xD0\xA1\xC3\xF7", "王小明", false),
            (b"\xD6\xD0\xCE\xC4 a", "中文 a", false),
            (b"\xCD\xF5^\xD0\xA1\xC3\xF7", "王^小明", true),
            (b"\xD6\xD0", "中", true),
        ],
        _ => &[],
    }
}

/// text of a sample value of one of the non-Latin character sets, if `b` is one
pub fn charset_sample_text(b: &[u8]) -> Option<&'static str> {
    for cs in [3u8, 4] {
        if let Some(x) = charset_samples(cs).iter().find(|x| x.0 == b) {
            return Some(x.1);
        }
    }
    None
}

pub struct GenCfg {
    pub max_depth: u32,
    /// allow private and unknown attributes
    pub private: bool,
    /// allow pixel data (native or encapsulated)
    pub pixel: bool,
    /// allow encapsulated pixel data
    pub encapsulated: bool,
    /// force all sequences / items to undefined length in the model
    pub all_undefined: bool,
    /// declare Specific Character Set ISO_IR 100 and use Latin-1 text in
    /// the VRs that follow the declared character set
    pub latin1: bool,
    /// declare Specific Character Set ISO_IR 192 and use UTF-8 text (takes precedence over `latin1`)
    pub utf8: bool,
    /// 0 = as the two flags say; 3 = ISO_IR 144 (Cyrillic), 4 = GB18030 (takes precedence over both)
    pub other_cs: u8,
    /// by the seed, one nested item declares another Specific Character Set, which then governs the text that
    /// follows it in stream order
    pub nested_charset: bool,
}

impl GenCfg {
    fn cs(&self) -> u8 {
        if self.other_cs != 0 {
            self.other_cs
        } else if self.utf8 {
            2
        } else if self.latin1 {
            1
        } else {
            0
        }
    }
}

impl Default for GenCfg {
    fn default() -> Self {
        GenCfg {
            max_depth: 4,
            private: true,
            pixel: true,
            encapsulated: true,
            all_undefined: false,
            latin1: false,
            utf8: false,
            other_cs: 0,
            nested_charset: false,
        }
    }
}

fn gen_level(t: &mut Tape, depth: u32, cfg: &GenCfg, top: bool) -> Vec<Elem> {
    let n = match t.weighted(&[3, 3, 2, 1]) {
        0 => 1 + t.below(3),
        1 => 2 + t.below(6),
        2 => t.below(2),
        _ => 8 + t.below(24),
    };
    let mut els: Vec<Elem> = Vec::new();
    let mut used: Vec<Tag> = Vec::new();
    for _ in 0..n {
        let kind = t.weighted(&[10, if depth < cfg.max_depth { 3 } else { 0 }, if cfg.private { 2 } else { 0 }, if cfg.private { 1 } else { 0 }]);
        match kind {
            0 => {
                let e = STD_TAGS[t.below(STD_TAGS.len() as u32) as usize];
                let tag = (e.0, e.1);
                if used.contains(&tag) {
                    continue;
                }
                used.push(tag);
                els.push(Elem {
                    tag,
                    vr: *e.2,
                    val: Val::Prim(gen_prim(t, e.2, e.3, cfg.cs())),
                });
            }
            1 => {
                let tag = SEQ_TAGS[t.below(SEQ_TAGS.len() as u32) as usize];
                if used.contains(&tag) {
                    continue;
                }
                used.push(tag);
                let nitems = match t.weighted(&[4, 1, 2]) {
                    0 => 1,
                    1 => 0,
                    _ => 2 + t.below(3),
                };
                let mut items = Vec::new();
                for _ in 0..nitems {
                    let elems = gen_level(t, depth + 1, cfg, false);
                    items.push(Item {
                        elems,
                        undef: cfg.all_undefined || t.chance(1, 2),
                    });
                }
                els.push(Elem {
                    tag,
                    vr: *b"SQ",
                    val: Val::Seq {
                        items,
                        undef: cfg.all_undefined || t.chance(1, 2),
                    },
                });
            }
            2 => {
                // private block: creator + one or two elements
                let group = [0x0009u16, 0x0011, 0x0029, 0x7FE1][t.below(4) as usize];
                let block = 0x10 + t.below(3) as u16;
                let creator = (group, block);
                if used.contains(&creator) {
                    continue;
                }
                used.push(creator);
                els.push(Elem {
                    tag: creator,
                    vr: *b"LO",
                    val: Val::Prim(Prim::Text(b"ACME PRIVATE 1.0".to_vec())),
                });
                let k = 1 + t.below(2);
                for j in 0..k {
                    let tag = (group, (block << 8) | (j as u16 * 3 + t.below(2) as u16));
                    if used.contains(&tag) {
                        continue;
                    }
                    used.push(tag);
                    let vr = ALL_VRS[t.below(ALL_VRS.len() as u32) as usize];
                    els.push(Elem {
                        tag,
                        vr: *vr,
                        val: Val::Prim(gen_prim(t, vr, true, cfg.cs())),
                    });
                }
            }
            _ => {
                // an even-group attribute no dictionary knows
                let tag = ([0x0A0Au16, 0x3334, 0x1072][t.below(3) as usize], 0x0100 + t.below(0x40) as u16);
                if used.contains(&tag) {
                    continue;
                }
                used.push(tag);
                let vr = ALL_VRS[t.below(ALL_VRS.len() as u32) as usize];
                els.push(Elem {
                    tag,
                    vr: *vr,
                    val: Val::Prim(gen_prim(t, vr, true, cfg.cs())),
                });
            }
        }
    }
    if top && cfg.pixel && t.chance(1, 3) {
        let val = if cfg.encapsulated && t.chance(1, 2) {
            let nf = match t.weighted(&[3, 1, 2]) {
                0 => 1,
                1 => 0,
                _ => 2 + t.below(3),
            } as usize;
            let mut frags = Vec::new();
            for _ in 0..nf {
                let l = match t.weighted(&[4, 1]) {
                    0 => 2 * (1 + t.below(30)) as usize,
                    _ => 0,
                };
                frags.push(simcore::pattern_bytes(2, l));
            }
            let bot = if t.chance(1, 2) || nf == 0 {
                vec![]
            } else {
                let mut off = 0u32;
                let mut v = Vec::new();
                for f in &frags {
                    v.push(off);
                    off += 8 + f.len() as u32;
                }
                v
            };
            Val::Frags { bot, frags }
        } else if t.chance(1, 2) {
            Val::Prim(gen_prim(t, b"OW", false, 0))
        } else {
            Val::Prim(gen_prim(t, b"OB", false, 0))
        };
        let vr = match &val {
            Val::Prim(Prim::U16(_)) => *b"OW",
            _ => *b"OB",
        };
        els.push(Elem {
            tag: PIXEL_DATA,
            vr,
            val,
        });
    }
    if top && cfg.cs() != 0 {
        els.retain(|e| e.tag != (0x0008, 0x0005));
        els.push(Elem {
            tag: (0x0008, 0x0005),
            vr: *b"CS",
            val: Val::Prim(Prim::Text(match cfg.cs() {
                2 => b"ISO_IR 192".to_vec(),
                3 => b"ISO_IR 144".to_vec(),
                4 => b"GB18030".to_vec(),
                _ => b"ISO_IR 100".to_vec(),
            })),
        });
    }
    els.sort_by_key(|e| e.tag);
    els
}

pub fn gen_dataset(t: &mut Tape, cfg: &GenCfg) -> Vec<Elem> {
    let mut m = gen_level(t, 1, cfg, true);
    if cfg.nested_charset && t.chance(1, 3) {
        nest_charset_switch(t, &mut m, cfg.cs());
    }
    m
}

fn charset_name(cs: u8) -> &'static [u8] {
    match cs {
        1 => b"ISO_IR 100",
        2 => b"ISO_IR 192",
        3 => b"ISO_IR 144",
        4 => b"GB18030",
        _ => b"ISO_IR 6",
    }
}

fn sample_in(t: &mut Tape, cs: u8, pn: bool) -> Vec<u8> {
    match cs {
        1 => [&b"M\xFCller"[..], b"Zo\xEB", b"\xC9"][t.below(3) as usize].to_vec(),
        2 => ["Müller", "Zoë", "日本語"][t.below(3) as usize].as_bytes().to_vec(),
        3 | 4 => charset_samples(cs).iter().filter(|x| x.2 == pn).nth(t.below(2) as usize).map(|x| x.0.to_vec()).unwrap_or_else(|| b"X".to_vec()),
        _ => b"plain".to_vec(),
    }
}

/// One nested item declares a Specific Character Set of its own. dicom-rs (reader and writer alike) lets a
/// Specific Character Set element govern the *rest of the stream*, so every character-set dependent text that
/// follows it in stream order is (re)drawn in that character set; text before it stays as it was.
fn nest_charset_switch(t: &mut Tape, elems: &mut [Elem], base: u8) {
    let new_cs = loop {
        let c = 1 + t.below(4) as u8;
        if c != base {
            break c;
        }
    };
    // pick the k-th item in stream order
    fn count_items(elems: &[Elem]) -> usize {
        elems.iter().map(|e| if let Val::Seq { items, .. } = &e.val { items.iter().map(|i| 1 + count_items(&i.elems)).sum() } else { 0 }).sum()
    }
    let n = count_items(elems);
    if n == 0 {
        return;
    }
    let target = t.below(n as u32) as usize;
    struct St {
        idx: usize,
        target: usize,
        switched: bool,
        cs: u8,
    }
    fn walk(t: &mut Tape, elems: &mut Vec<Elem>, st: &mut St) {
        // (elements are in tag order; (0008,0005) precedes every character-set dependent attribute used here)
        for e in elems.iter_mut() {
            match &mut e.val {
                Val::Prim(Prim::Text(b)) if st.switched && matches!(&e.vr, b"LO" | b"PN" | b"SH" | b"ST" | b"LT" | b"UT" | b"UC") => {
                    if !b.is_ascii() || t.chance(1, 2) {
                        *b = sample_in(t, st.cs, &e.vr == b"PN");
                    }
                }
                Val::Seq { items, .. } => {
                    for it in items.iter_mut() {
                        let me = st.idx;
                        st.idx += 1;
                        if me == st.target {
                            it.elems.retain(|x| x.tag != (0x0008, 0x0005));
                            it.elems.insert(0, Elem { tag: (0x0008, 0x0005), vr: *b"CS", val: Val::Prim(Prim::Text(charset_name(st.cs).to_vec())) });
                            it.elems.sort_by_key(|x| x.tag);
                            st.switched = true;
                        }
                        walk(t, &mut it.elems, st);
                    }
                }
                _ => {}
            }
        }
    }
    let mut st = St { idx: 0, target, switched: false, cs: new_cs };
    let mut v = elems.to_vec();
    walk(t, &mut v, &mut st);
    elems.clone_from_slice(&v);
}

pub fn count_elems(elems: &[Elem]) -> usize {
    let mut n = 0;
    for e in elems {
        n += 1;
        if let Val::Seq { items, .. } = &e.val {
            for it in items {
                n += count_elems(&it.elems);
            }
        }
    }
    n
}

pub fn max_depth(elems: &[Elem]) -> usize {
    let mut d = 0;
    for e in elems {
        if let Val::Seq { items, .. } = &e.val {
            for it in items {
                d = d.max(1 + max_depth(&it.elems));
            }
        }
    }
    d
}

pub fn has_defined_lengths(elems: &[Elem]) -> bool {
    for e in elems {
        if let Val::Seq { items, undef } = &e.val {
            if !*undef {
                return true;
            }
            for it in items {
                if !it.undef || has_defined_lengths(&it.elems) {
                    return true;
                }
            }
        }
    }
    false
}

// ------------------------------------------------------------------ file

pub struct MetaSpec {
    pub media_sop_class: Vec<u8>,
    pub media_sop_instance: Vec<u8>,
    pub transfer_syntax: Vec<u8>,
    pub impl_class_uid: Vec<u8>,
    pub impl_version: Option<Vec<u8>>,
    pub source_ae: Option<Vec<u8>>,
}

fn meta_elem(out: &mut Vec<u8>, tag: Tag, vr: &[u8; 2], val: &[u8]) {
    out.extend_from_slice(&tag.0.to_le_bytes());
    out.extend_from_slice(&tag.1.to_le_bytes());
    out.extend_from_slice(vr);
    let mut v = val.to_vec();
    if v.len() % 2 == 1 {
        v.push(pad_byte(vr));
    }
    if long_form(vr) {
        out.extend_from_slice(&[0, 0]);
        out.extend_from_slice(&(v.len() as u32).to_le_bytes());
    } else {
        out.extend_from_slice(&(v.len() as u16).to_le_bytes());
    }
    out.extend_from_slice(&v);
}

/// File meta group (always Explicit VR LE) with correct group length.
pub fn encode_meta(m: &MetaSpec) -> Vec<u8> {
    let mut g = Vec::new();
    meta_elem(&mut g, (2, 1), b"OB", &[0, 1]);
    meta_elem(&mut g, (2, 2), b"UI", &m.media_sop_class);
    meta_elem(&mut g, (2, 3), b"UI", &m.media_sop_instance);
    meta_elem(&mut g, (2, 0x10), b"UI", &m.transfer_syntax);
    meta_elem(&mut g, (2, 0x12), b"UI", &m.impl_class_uid);
    if let Some(v) = &m.impl_version {
        meta_elem(&mut g, (2, 0x13), b"SH", v);
    }
    if let Some(v) = &m.source_ae {
        meta_elem(&mut g, (2, 0x16), b"AE", v);
    }
    let mut out = Vec::new();
    meta_elem(&mut out, (2, 0), b"UL", &(g.len() as u32).to_le_bytes());
    out.extend_from_slice(&g);
    out
}

pub fn encode_file(m: &MetaSpec, dataset: &[u8], preamble: bool) -> Vec<u8> {
    let mut out = Vec::new();
    if preamble {
        out.extend_from_slice(&[0u8; 128]);
    }
    out.extend_from_slice(b"DICM");
    out.extend_from_slice(&encode_meta(m));
    out.extend_from_slice(dataset);
    out
}

/// Parse a file: returns (meta elements, offset of the data set). The meta
/// group length must equal the bytes that follow it.
pub fn parse_file_meta(bytes: &[u8]) -> Result<(Vec<PElem>, usize), String> {
    parse_file_meta_opts(bytes, true)
}

/// `check_next`: also require that what follows the group is not another
/// group-0002 element (meaningless when the data set is deflated).
pub fn parse_file_meta_opts(bytes: &[u8], check_next: bool) -> Result<(Vec<PElem>, usize), String> {
    let mut pos;
    if bytes.len() >= 132 && &bytes[128..132] == b"DICM" {
        pos = 132;
    } else if bytes.len() >= 4 && &bytes[0..4] == b"DICM" {
        pos = 4;
    } else {
        return Err("no DICM magic code".into());
    }
    if bytes.len() < pos + 12 {
        return Err("file meta group length element missing".into());
    }
    if bytes[pos..pos + 8] != [2, 0, 0, 0, b'U', b'L', 4, 0] {
        return Err(format!("file meta group does not start with (0002,0000) UL 4: {:02X?}", &bytes[pos..pos + 8]));
    }
    let glen = u32::from_le_bytes([bytes[pos + 8], bytes[pos + 9], bytes[pos + 10], bytes[pos + 11]]) as usize;
    pos += 12;
    if bytes.len() < pos + glen {
        return Err(format!("file meta group length {} overruns the file", glen));
    }
    let none_seq = |_t: Tag| false;
    let none_vr = |_t: Tag| None;
    let meta = parse(&bytes[pos..pos + glen], Syntax::ExplicitLE, &none_seq, &none_vr).map_err(|e| format!("file meta group (length {}): {}", glen, e))?;
    for e in &meta {
        if e.tag.0 != 2 {
            return Err(format!("group length {} covers element ({:04X},{:04X}) outside group 0002", glen, e.tag.0, e.tag.1));
        }
    }
    // the next element must not be in group 2
    if check_next && bytes.len() >= pos + glen + 2 && bytes[pos + glen] == 2 && bytes[pos + glen + 1] == 0 {
        return Err(format!("group length {} stops before the end of group 0002", glen));
    }
    Ok((meta, pos + glen))
}

pub fn meta_value<'a>(meta: &'a [PElem], tag: Tag) -> Option<&'a [u8]> {
    meta.iter().find(|e| e.tag == tag).and_then(|e| match &e.val {
        PVal::Bytes(b) => Some(&b[..]),
        _ => None,
    })
}

pub fn trim_uid(b: &[u8]) -> &[u8] {
    let mut e = b.len();
    while e > 0 && (b[e - 1] == 0 || b[e - 1] == b' ') {
        e -= 1;
    }
    &b[..e]
}

#[cfg(test)]
mod tests {
    use super::*;
    #[test]
    fn roundtrip_generated() {
        for seed in 0..300u64 {
            let mut t = Tape::generate(seed);
            let ds = gen_dataset(&mut t, &GenCfg::default());
            for syn in [Syntax::ImplicitLE, Syntax::ExplicitLE, Syntax::ExplicitBE] {
                let mut ds2 = ds.clone();
                if syn != Syntax::ExplicitLE {
                    ds2.retain(|e| !matches!(e.val, Val::Frags { .. }));
                }
                let (b, _) = encode(&ds2, syn, None).unwrap();
                let mut st = Vec::new();
                seq_tags(&ds2, &mut st);
                let vm = unambiguous_vr_map(&ds2);
                let is_seq = |t: Tag| st.contains(&t);
                let vr_of = |t: Tag| vm.iter().find(|x| x.0 == t).map(|x| x.1);
                let p = parse(&b, syn, &is_seq, &vr_of).unwrap_or_else(|e| panic!("seed {} {:?}: {}", seed, syn, e));
                assert_eq!(p.len(), ds2.len());
                check_padding(&p, &vr_of).unwrap();
            }
        }
    }
}
