//! Independent PS3.8 (DICOM Upper Layer) PDU encoder and parser.
//!
//! Written from PS3.8 §9.3 and PS3.7 Annex D, not from dicom-rs. Strings are
//! kept as raw bytes; nothing is trimmed or interpreted here, so a mistake in
//! dicom-rs' text handling cannot be mirrored.
//!
//! The parser is *strict about structure*: every length field must describe
//! exactly the content that follows and every container must be filled
//! exactly by its children.

#[derive(Clone, Debug, PartialEq, Eq)]
pub struct RSub {
    pub ty: u8,
    pub data: Vec<u8>,
}

#[derive(Clone, Debug, PartialEq, Eq)]
pub enum RItem {
    /// 0x10
    AppCtx(Vec<u8>),
    /// 0x20: id, sub-items (0x30 abstract syntax, 0x40 transfer syntax)
    PcProposed { id: u8, subs: Vec<RSub> },
    /// 0x21: id, result/reason, sub-items (0x40)
    PcResult { id: u8, reason: u8, subs: Vec<RSub> },
    /// 0x50: user information sub-items, raw
    UserInfo(Vec<RSub>),
    Other { ty: u8, data: Vec<u8> },
}

#[derive(Clone, Debug, PartialEq, Eq)]
pub struct RAssoc {
    pub version: u16,
    pub called: Vec<u8>,  // 16 bytes
    pub calling: Vec<u8>, // 16 bytes
    pub items: Vec<RItem>,
}

#[derive(Clone, Debug, PartialEq, Eq)]
pub struct RPdv {
    pub ctx: u8,
    pub header: u8,
    pub data: Vec<u8>,
}

#[derive(Clone, Debug, PartialEq, Eq)]
pub enum RPdu {
    AssocRq(RAssoc),
    AssocAc(RAssoc),
    AssocRj { result: u8, source: u8, reason: u8 },
    PData(Vec<RPdv>),
    ReleaseRq,
    ReleaseRp,
    Abort { source: u8, reason: u8 },
    Unknown { ty: u8, data: Vec<u8> },
}

impl RPdu {
    pub fn type_code(&self) -> u8 {
        match self {
            RPdu::AssocRq(_) => 1,
            RPdu::AssocAc(_) => 2,
            RPdu::AssocRj { .. } => 3,
            RPdu::PData(_) => 4,
            RPdu::ReleaseRq => 5,
            RPdu::ReleaseRp => 6,
            RPdu::Abort { .. } => 7,
            RPdu::Unknown { ty, .. } => *ty,
        }
    }
    pub fn kind(&self) -> &'static str {
        match self {
            RPdu::AssocRq(_) => "A-ASSOCIATE-RQ",
            RPdu::AssocAc(_) => "A-ASSOCIATE-AC",
            RPdu::AssocRj { .. } => "A-ASSOCIATE-RJ",
            RPdu::PData(_) => "P-DATA-TF",
            RPdu::ReleaseRq => "A-RELEASE-RQ",
            RPdu::ReleaseRp => "A-RELEASE-RP",
            RPdu::Abort { .. } => "A-ABORT",
            RPdu::Unknown { .. } => "UNKNOWN",
        }
    }
}

// ------------------------------------------------------------------ encode

fn put_u16(out: &mut Vec<u8>, v: usize) -> Result<(), String> {
    if v > 0xFFFF {
        return Err(format!("length {} does not fit a 16-bit length field", v));
    }
    out.extend_from_slice(&(v as u16).to_be_bytes());
    Ok(())
}

fn put_item16(out: &mut Vec<u8>, ty: u8, body: &[u8]) -> Result<(), String> {
    out.push(ty);
    out.push(0);
    put_u16(out, body.len())?;
    out.extend_from_slice(body);
    Ok(())
}

fn fixed16(s: &[u8]) -> Vec<u8> {
    let mut v = s.to_vec();
    v.resize(16, b' ');
    v
}

pub fn encode_item(it: &RItem) -> Result<Vec<u8>, String> {
    let mut out = Vec::new();
    match it {
        RItem::AppCtx(name) => put_item16(&mut out, 0x10, name)?,
        RItem::PcProposed { id, subs } => {
            let mut body = vec![*id, 0, 0, 0];
            for s in subs {
                put_item16(&mut body, s.ty, &s.data)?;
            }
            put_item16(&mut out, 0x20, &body)?;
        }
        RItem::PcResult { id, reason, subs } => {
            let mut body = vec![*id, 0, *reason, 0];
            for s in subs {
                put_item16(&mut body, s.ty, &s.data)?;
            }
            put_item16(&mut out, 0x21, &body)?;
        }
        RItem::UserInfo(subs) => {
            let mut body = Vec::new();
            for s in subs {
                put_item16(&mut body, s.ty, &s.data)?;
            }
            put_item16(&mut out, 0x50, &body)?;
        }
        RItem::Other { ty, data } => put_item16(&mut out, *ty, data)?,
    }
    Ok(out)
}

/// Encode a PDU per PS3.8 §9.3. Fails if some content cannot be expressed by
/// its length field.
pub fn encode(p: &RPdu) -> Result<Vec<u8>, String> {
    let mut body = Vec::new();
    match p {
        RPdu::AssocRq(a) | RPdu::AssocAc(a) => {
            body.extend_from_slice(&a.version.to_be_bytes());
            body.extend_from_slice(&[0, 0]);
            body.extend_from_slice(&fixed16(&a.called));
            body.extend_from_slice(&fixed16(&a.calling));
            body.extend_from_slice(&[0u8; 32]);
            for it in &a.items {
                body.extend_from_slice(&encode_item(it)?);
            }
        }
        RPdu::AssocRj {
            result,
            source,
            reason,
        } => body.extend_from_slice(&[0, *result, *source, *reason]),
        RPdu::PData(pdvs) => {
            for v in pdvs {
                let l = v.data.len() + 2;
                if l > u32::MAX as usize {
                    return Err("PDV too long".into());
                }
                body.extend_from_slice(&(l as u32).to_be_bytes());
                body.push(v.ctx);
                body.push(v.header);
                body.extend_from_slice(&v.data);
            }
        }
        RPdu::ReleaseRq | RPdu::ReleaseRp => body.extend_from_slice(&[0; 4]),
        RPdu::Abort { source, reason } => body.extend_from_slice(&[0, 0, *source, *reason]),
        RPdu::Unknown { data, .. } => body.extend_from_slice(data),
    }
    if body.len() > u32::MAX as usize {
        return Err("PDU too long".into());
    }
    let mut out = Vec::with_capacity(body.len() + 6);
    out.push(p.type_code());
    out.push(0);
    out.extend_from_slice(&(body.len() as u32).to_be_bytes());
    out.extend_from_slice(&body);
    Ok(out)
}

// ------------------------------------------------------------------ parse

/// Split a byte stream into complete PDU frames (type, body). Returns the
/// frames and the number of bytes consumed; a trailing partial PDU is left.
pub fn frame(bytes: &[u8]) -> (Vec<(u8, &[u8])>, usize) {
    let mut out = Vec::new();
    let mut pos = 0usize;
    while bytes.len() - pos >= 6 {
        let len = u32::from_be_bytes([
            bytes[pos + 2],
            bytes[pos + 3],
            bytes[pos + 4],
            bytes[pos + 5],
        ]) as usize;
        if bytes.len() - pos - 6 < len {
            break;
        }
        out.push((bytes[pos], &bytes[pos + 6..pos + 6 + len]));
        pos += 6 + len;
    }
    (out, pos)
}

fn parse_items16(mut b: &[u8], what: &str) -> Result<Vec<RSub>, String> {
    let mut v = Vec::new();
    while !b.is_empty() {
        if b.len() < 4 {
            return Err(format!("{}: {} stray bytes where an item header is expected", what, b.len()));
        }
        let ty = b[0];
        let l = u16::from_be_bytes([b[2], b[3]]) as usize;
        if b.len() - 4 < l {
            return Err(format!(
                "{}: item {:#04x} declares {} bytes but only {} remain in its container",
                what,
                ty,
                l,
                b.len() - 4
            ));
        }
        v.push(RSub {
            ty,
            data: b[4..4 + l].to_vec(),
        });
        b = &b[4 + l..];
    }
    Ok(v)
}

fn parse_assoc(body: &[u8], kind: &str) -> Result<RAssoc, String> {
    if body.len() < 68 {
        return Err(format!("{}: fixed part is {} bytes, 68 required", kind, body.len()));
    }
    let version = u16::from_be_bytes([body[0], body[1]]);
    let called = body[4..20].to_vec();
    let calling = body[20..36].to_vec();
    let raw = parse_items16(&body[68..], kind)?;
    let mut items = Vec::new();
    for r in raw {
        let it = match r.ty {
            0x10 => RItem::AppCtx(r.data),
            0x20 => {
                if r.data.len() < 4 {
                    return Err(format!("{}: presentation context item shorter than 4", kind));
                }
                RItem::PcProposed {
                    id: r.data[0],
                    subs: parse_items16(&r.data[4..], "presentation context (proposed)")?,
                }
            }
            0x21 => {
                if r.data.len() < 4 {
                    return Err(format!("{}: presentation context item shorter than 4", kind));
                }
                RItem::PcResult {
                    id: r.data[0],
                    reason: r.data[2],
                    subs: parse_items16(&r.data[4..], "presentation context (result)")?,
                }
            }
            0x50 => RItem::UserInfo(parse_items16(&r.data, "user information")?),
            ty => RItem::Other { ty, data: r.data },
        };
        items.push(it);
    }
    Ok(RAssoc {
        version,
        called,
        calling,
        items,
    })
}

/// Parse one framed PDU body.
pub fn parse_body(ty: u8, body: &[u8]) -> Result<RPdu, String> {
    Ok(match ty {
        1 => RPdu::AssocRq(parse_assoc(body, "A-ASSOCIATE-RQ")?),
        2 => RPdu::AssocAc(parse_assoc(body, "A-ASSOCIATE-AC")?),
        3 => {
            if body.len() != 4 {
                return Err(format!("A-ASSOCIATE-RJ body is {} bytes, must be 4", body.len()));
            }
            RPdu::AssocRj {
                result: body[1],
                source: body[2],
                reason: body[3],
            }
        }
        4 => {
            let mut b = body;
            let mut v = Vec::new();
            while !b.is_empty() {
                if b.len() < 6 {
                    return Err(format!("P-DATA-TF: {} stray bytes where a PDV header is expected", b.len()));
                }
                let l = u32::from_be_bytes([b[0], b[1], b[2], b[3]]) as usize;
                if l < 2 {
                    return Err(format!("P-DATA-TF: PDV item length {} < 2", l));
                }
                if b.len() - 4 < l {
                    return Err(format!(
                        "P-DATA-TF: PDV declares {} bytes but only {} remain in the PDU",
                        l,
                        b.len() - 4
                    ));
                }
                v.push(RPdv {
                    ctx: b[4],
                    header: b[5],
                    data: b[6..4 + l].to_vec(),
                });
                b = &b[4 + l..];
            }
            RPdu::PData(v)
        }
        5 | 6 => {
            if body.len() != 4 {
                return Err(format!("A-RELEASE body is {} bytes, must be 4", body.len()));
            }
            if ty == 5 {
                RPdu::ReleaseRq
            } else {
                RPdu::ReleaseRp
            }
        }
        7 => {
            if body.len() != 4 {
                return Err(format!("A-ABORT body is {} bytes, must be 4", body.len()));
            }
            RPdu::Abort {
                source: body[2],
                reason: body[3],
            }
        }
        ty => RPdu::Unknown {
            ty,
            data: body.to_vec(),
        },
    })
}

/// Parse a byte string that must contain exactly one PDU.
pub fn parse_exact(bytes: &[u8]) -> Result<RPdu, String> {
    if bytes.len() < 6 {
        return Err(format!("{} bytes is shorter than a PDU header", bytes.len()));
    }
    let len = u32::from_be_bytes([bytes[2], bytes[3], bytes[4], bytes[5]]) as usize;
    if bytes.len() - 6 != len {
        return Err(format!(
            "PDU-length field says {} but {} bytes follow the header",
            len,
            bytes.len() - 6
        ));
    }
    parse_body(bytes[0], &bytes[6..])
}

/// Parse a whole stream into PDUs; trailing partial PDU is an error.
pub fn parse_stream(bytes: &[u8]) -> Result<Vec<RPdu>, String> {
    let (frames, used) = frame(bytes);
    if used != bytes.len() {
        return Err(format!(
            "stream ends inside a PDU: {} bytes framed, {} trailing",
            used,
            bytes.len() - used
        ));
    }
    frames.into_iter().map(|(t, b)| parse_body(t, b)).collect()
}

// --------------------------------------------------- user-information helpers

pub fn sub_max_length(v: u32) -> RSub {
    RSub {
        ty: 0x51,
        data: v.to_be_bytes().to_vec(),
    }
}
pub fn sub_impl_class_uid(s: &[u8]) -> RSub {
    RSub {
        ty: 0x52,
        data: s.to_vec(),
    }
}
pub fn sub_impl_version(s: &[u8]) -> RSub {
    RSub {
        ty: 0x55,
        data: s.to_vec(),
    }
}
pub fn sub_role(uid: &[u8], scu: u8, scp: u8) -> Result<RSub, String> {
    let mut d = Vec::new();
    put_u16(&mut d, uid.len())?;
    d.extend_from_slice(uid);
    d.push(scu);
    d.push(scp);
    Ok(RSub { ty: 0x54, data: d })
}
pub fn sub_ext_neg(uid: &[u8], info: &[u8]) -> Result<RSub, String> {
    let mut d = Vec::new();
    put_u16(&mut d, uid.len())?;
    d.extend_from_slice(uid);
    d.extend_from_slice(info);
    Ok(RSub { ty: 0x56, data: d })
}
pub fn sub_user_identity(ty: u8, resp: u8, primary: &[u8], secondary: &[u8]) -> Result<RSub, String> {
    let mut d = vec![ty, resp];
    put_u16(&mut d, primary.len())?;
    d.extend_from_slice(primary);
    put_u16(&mut d, secondary.len())?;
    d.extend_from_slice(secondary);
    Ok(RSub { ty: 0x58, data: d })
}

/// Max-length sub-item value from a user information item, if present.
pub fn find_max_length(a: &RAssoc) -> Option<u32> {
    for it in &a.items {
        if let RItem::UserInfo(subs) = it {
            for s in subs {
                if s.ty == 0x51 && s.data.len() == 4 {
                    return Some(u32::from_be_bytes([s.data[0], s.data[1], s.data[2], s.data[3]]));
                }
            }
        }
    }
    None
}

#[cfg(test)]
mod tests {
    use super::*;
    #[test]
    fn roundtrip() {
        let p = RPdu::AssocRq(RAssoc {
            version: 1,
            called: b"A".to_vec(),
            calling: b"B".to_vec(),
            items: vec![
                RItem::AppCtx(b"1.2.840.10008.3.1.1.1".to_vec()),
                RItem::PcProposed {
                    id: 1,
                    subs: vec![
                        RSub { ty: 0x30, data: b"1.2.3".to_vec() },
                        RSub { ty: 0x40, data: b"1.2.840.10008.1.2".to_vec() },
                    ],
                },
                RItem::UserInfo(vec![sub_max_length(16384)]),
            ],
        });
        let b = encode(&p).unwrap();
        let q = parse_exact(&b).unwrap();
        match (&p, &q) {
            (RPdu::AssocRq(a), RPdu::AssocRq(b)) => {
                assert_eq!(a.items, b.items);
                assert_eq!(&b.called[..1], b"A");
            }
            _ => panic!(),
        }
    }
}
