pub mod pdu;
