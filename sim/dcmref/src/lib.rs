pub mod pdu;
pub mod ds;
