//! Simulated disk faults at the libc seam: while a plan is armed, every
//! descriptor opened for writing (open/open64 with a write access mode) is a
//! "disk file"; the interposed `write` accepts bytes until the plan's offset
//! (counted over all disk files, in call order), optionally cuts the crossing
//! write short (a nearly full disk accepts part of a write), and then fails
//! with the plan's errno (ENOSPC, EIO, EDQUOT) once or persistently. EINTR as
//! errno is the transient variant: std retries it, so the outcome must equal
//! the fault-free one. Everything else passes through to the real `write`.
//!
//! Used by C34 (path-based writers, byte offset enumerated) and C32 (the
//! storescp node's file writing).

use std::sync::atomic::{AtomicBool, Ordering};
use std::sync::{Mutex, OnceLock};

pub const MAX_FD: usize = 4096;
static DISK_FDS: [AtomicBool; MAX_FD] = [const { AtomicBool::new(false) }; MAX_FD];
static ARMED: AtomicBool = AtomicBool::new(false);

#[derive(Clone, Debug)]
pub struct Plan {
    /// bytes accepted (over all disk files) before writes start to fail
    pub fail_at: u64,
    pub errno: i32,
    /// the write that crosses `fail_at` is cut short there instead of failing as a whole
    pub short: bool,
    /// every further write fails too (a full disk); otherwise the fault fires once
    pub persistent: bool,
}

#[derive(Clone, Debug, Default)]
pub struct Report {
    /// bytes the disk accepted
    pub written: u64,
    /// write calls that were failed
    pub fired: u32,
    /// write calls that were cut short
    pub short_writes: u32,
    /// files opened for writing while armed
    pub files: Vec<String>,
}

struct State {
    plan: Plan,
    rep: Report,
}

static STATE: Mutex<Option<State>> = Mutex::new(None);

pub fn arm(plan: Plan) {
    *STATE.lock().unwrap_or_else(|e| e.into_inner()) = Some(State { plan, rep: Report::default() });
    ARMED.store(true, Ordering::SeqCst);
}

pub fn disarm() -> Report {
    ARMED.store(false, Ordering::SeqCst);
    for f in DISK_FDS.iter() {
        f.store(false, Ordering::Relaxed);
    }
    STATE.lock().unwrap_or_else(|e| e.into_inner()).take().map(|s| s.rep).unwrap_or_default()
}

/// called by the open interposers after a successful real open
pub fn note_open(fd: i32, path: &str, flags: i32) {
    if !ARMED.load(Ordering::Relaxed) || fd < 0 || fd as usize >= MAX_FD {
        return;
    }
    let acc = flags & libc::O_ACCMODE;
    if acc != libc::O_WRONLY && acc != libc::O_RDWR {
        return;
    }
    if let Some(s) = STATE.lock().unwrap_or_else(|e| e.into_inner()).as_mut() {
        s.rep.files.push(path.to_string());
        DISK_FDS[fd as usize].store(true, Ordering::Relaxed);
    }
}

pub fn note_close(fd: i32) {
    if fd >= 0 && (fd as usize) < MAX_FD {
        DISK_FDS[fd as usize].store(false, Ordering::Relaxed);
    }
}

pub fn armed() -> bool {
    ARMED.load(Ordering::Relaxed)
}

type WriteFn = unsafe extern "C" fn(i32, *const libc::c_void, usize) -> isize;

fn real_write() -> WriteFn {
    static SLOT: OnceLock<usize> = OnceLock::new();
    let p = *SLOT.get_or_init(|| unsafe { libc::dlsym(libc::RTLD_NEXT, b"write\0".as_ptr() as *const libc::c_char) as usize });
    assert!(p != 0, "dlsym(write) failed");
    unsafe { std::mem::transmute::<usize, WriteFn>(p) }
}

#[no_mangle]
pub unsafe extern "C" fn write(fd: i32, buf: *const libc::c_void, count: usize) -> isize {
    if fd >= 0 && (fd as usize) < MAX_FD && DISK_FDS[fd as usize].load(Ordering::Relaxed) && ARMED.load(Ordering::Relaxed) {
        let mut g = STATE.lock().unwrap_or_else(|e| e.into_inner());
        if let Some(s) = g.as_mut() {
            let room = s.plan.fail_at.saturating_sub(s.rep.written);
            if (count as u64) > room || (room == 0 && count > 0) {
                if s.plan.short && room > 0 {
                    // part of the write fits
                    let n = unsafe { real_write()(fd, buf, room as usize) };
                    if n > 0 {
                        s.rep.written += n as u64;
                        s.rep.short_writes += 1;
                    }
                    return n;
                }
                let e = s.plan.errno;
                s.rep.fired += 1;
                if !s.plan.persistent {
                    s.plan.fail_at = u64::MAX;
                }
                drop(g);
                unsafe { *libc::__errno_location() = e };
                return -1;
            }
            let n = unsafe { real_write()(fd, buf, count) };
            if n > 0 {
                s.rep.written += n as u64;
            }
            return n;
        }
    }
    unsafe { real_write()(fd, buf, count) }
}

