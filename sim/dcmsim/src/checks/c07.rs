//! C07 — odd declared lengths per strategy; reported position == bytes the
//! source handed out, after every token.

use crate::dsbuild::*;
use crate::framework::CheckDef;
use crate::simio::*;
use dcmref::ds::{self, Elem, GenCfg, Prim, Syntax, Val};
use dicom_core::header::{DataElementHeader, HasLength, Header, SequenceItemHeader};
use dicom_core::value::PrimitiveValue;
use dicom_core::Tag;
use dicom_encoding::text::SpecificCharacterSet;
use dicom_parser::dataset::lazy_read::LazyDataSetReader;
use dicom_parser::dataset::read::{DataSetReader, DataSetReaderOptions, OddLengthStrategy, ValueReadStrategy};
use dicom_parser::dataset::{DataToken, LazyDataToken};
use dicom_parser::stateful::decode::{StatefulDecode, StatefulDecoder};
use simcore::{check, fail, RunResult, Tape, Violation};
use std::sync::atomic::{AtomicU64, AtomicUsize, Ordering};
use std::sync::Arc;

pub fn def() -> CheckDef {
    CheckDef {
        id: "C07",
        level: "exploration",
        configs: &["accept-eager", "accept-lazy", "next-even-eager", "fail-eager", "even-baseline", "next-even-lazy", "fail-lazy"],
        quick_runs: 200_000,
        thorough_runs: 4_000_000,
        run,
        rule: "one run = one generated data set in which one seed-chosen value and, by the seed, further ones (every VR, including \
               fixed-width binary VRs whose length is not a multiple of the unit; inside items and defined-length sequences; \
               pixel data fragments; under NextEven also defined-length items and sequences themselves) carry an odd declared \
               length, encoded by the independent encoder in one of the three uncompressed syntaxes, served through a simulated \
               source with seed-chosen short reads and EINTR and read token by token by the real eager or lazy reader under one \
               odd-length strategy. A recording wrapper around the public StatefulDecode notes position() after every decoder \
               call; the source counts the bytes it handed out. Oracle after EVERY token: position == bytes handed out; Accept: \
               following headers are the expected ones (reader stayed aligned) and the whole stream is consumed; NextEven: one \
               more byte per odd value; Fail: error at the first odd element, none before. distinct = distinct hashed \
               environment event sequences; non-trivial = a short read or EINTR fired",
        real: &["DataSetReader (sanitize_length, sequence delimitation)", "LazyDataSetReader", "StatefulDecoder value readers and position accounting"],
        stub: &["byte source (SimSource)", "recording StatefulDecode wrapper (observer only)", "independent encoder producing the odd-length streams"],
        assumptions: &["no buffering layer sits between StatefulDecoder and the simulated source, so the byte comparison is exact"],
        required_probes: &["odd-text", "odd-fixed-width", "odd-in-item", "odd-defined-sequence", "fail-reported", "odd-fragment", "odd-item-length", "odd-sequence-length"],
        net: false,
    }
}

/// observer around the real decoder
struct Rec<D> {
    inner: D,
    pos: Arc<AtomicU64>,
}

impl<D: StatefulDecode> Rec<D> {
    fn note(&self) {
        self.pos.store(self.inner.position(), Ordering::SeqCst);
    }
}

impl<D: StatefulDecode> StatefulDecode for Rec<D> {
    type Reader = D::Reader;
    fn decode_header(&mut self) -> dicom_parser::stateful::decode::Result<DataElementHeader> {
        let r = self.inner.decode_header();
        self.note();
        r
    }
    fn decode_item_header(&mut self) -> dicom_parser::stateful::decode::Result<SequenceItemHeader> {
        let r = self.inner.decode_item_header();
        self.note();
        r
    }
    fn read_value(&mut self, header: &DataElementHeader) -> dicom_parser::stateful::decode::Result<PrimitiveValue> {
        let r = self.inner.read_value(header);
        self.note();
        r
    }
    fn read_value_preserved(&mut self, header: &DataElementHeader) -> dicom_parser::stateful::decode::Result<PrimitiveValue> {
        let r = self.inner.read_value_preserved(header);
        self.note();
        r
    }
    fn read_value_bytes(&mut self, header: &DataElementHeader) -> dicom_parser::stateful::decode::Result<PrimitiveValue> {
        let r = self.inner.read_value_bytes(header);
        self.note();
        r
    }
    fn read_to_vec(&mut self, length: u32, vec: &mut Vec<u8>) -> dicom_parser::stateful::decode::Result<()> {
        let r = self.inner.read_to_vec(length, vec);
        self.note();
        r
    }
    fn read_u32_to_vec(&mut self, length: u32, vec: &mut Vec<u32>) -> dicom_parser::stateful::decode::Result<()> {
        let r = self.inner.read_u32_to_vec(length, vec);
        self.note();
        r
    }
    fn read_to<W>(&mut self, length: u32, out: W) -> dicom_parser::stateful::decode::Result<()>
    where
        Self: Sized,
        W: std::io::Write,
    {
        let r = self.inner.read_to(length, out);
        self.note();
        r
    }
    fn skip_bytes(&mut self, length: u32) -> dicom_parser::stateful::decode::Result<()> {
        let r = self.inner.skip_bytes(length);
        self.note();
        r
    }
    fn seek(&mut self, position: u64) -> dicom_parser::stateful::decode::Result<()>
    where
        Self::Reader: std::io::Seek,
    {
        let r = self.inner.seek(position);
        self.note();
        r
    }
    fn position(&self) -> u64 {
        self.inner.position()
    }
}

/// number of values that can be given an odd length (primitive values, fragments)
fn count_cands(elems: &[Elem]) -> usize {
    elems
        .iter()
        .map(|e| match &e.val {
            Val::Prim(_) => 1,
            Val::Seq { items, .. } => items.iter().map(|i| count_cands(&i.elems)).sum(),
            Val::Frags { frags, .. } => frags.len(),
        })
        .sum()
}

struct OddPlan {
    /// stream-order index of the one value that is odd for sure
    target: usize,
    /// chance (1 in `others`) for every other value; 0 = none
    others: u32,
    idx: usize,
}

/// Make seed-chosen values odd. Returns the number made odd.
fn make_odd(w: &mut Tape, env: &EnvRef, elems: &mut [Elem], in_item: bool, in_defined: bool, plan: &mut OddPlan) -> usize {
    let mut n = 0;
    for e in elems.iter_mut() {
        match &mut e.val {
            Val::Prim(p) => {
                let forced = plan.idx == plan.target;
                plan.idx += 1;
                let pick = forced || (plan.others > 0 && w.chance(1, plan.others));
                if !pick {
                    continue;
                }
                let u = ds::unit(&e.vr);
                let raw: Option<Vec<u8>> = match p {
                    Prim::Text(b) | Prim::Bytes(b) => {
                        let mut v = b.clone();
                        if v.len() % 2 == 0 {
                            v.push(b'Z');
                        }
                        env.probe("odd-text");
                        Some(v)
                    }
                    _ if u > 0 => {
                        // a fixed-width value whose length is odd (hence not a multiple of the unit)
                        let k = w.below(3) as usize;
                        let len = k * u + [1, 3, 5, 7][w.below(4) as usize % if u >= 8 { 4 } else if u >= 4 { 2 } else { 1 }];
                        env.probe("odd-fixed-width");
                        Some(simcore::pattern_bytes(1, len).iter().map(|b| b | 0x20).collect())
                    }
                    _ => None,
                };
                if let Some(v) = raw {
                    *p = Prim::Raw(v);
                    n += 1;
                    if in_item {
                        env.probe("odd-in-item");
                    }
                    if in_defined {
                        env.probe("odd-defined-sequence");
                    }
                }
            }
            Val::Seq { items, undef } => {
                let def = !*undef;
                for it in items.iter_mut() {
                    n += make_odd(w, env, &mut it.elems, true, in_defined || def || !it.undef, plan);
                }
            }
            Val::Frags { frags, .. } => {
                for f in frags.iter_mut() {
                    let forced = plan.idx == plan.target;
                    plan.idx += 1;
                    if forced || (plan.others > 0 && w.chance(1, plan.others)) {
                        if f.len() % 2 == 0 {
                            f.push(0x5A);
                        }
                        env.probe("odd-fragment");
                        n += 1;
                    }
                }
            }
        }
    }
    n
}

fn first_odd(lens: &[ds::LenRec]) -> Option<usize> {
    lens.iter().position(|x| x.declared != ds::UNDEF && x.declared % 2 == 1)
}

fn run(cfg: usize, w: &mut Tape, env: &EnvRef) -> RunResult {
    let syn = [Syntax::ImplicitLE, Syntax::ExplicitLE, Syntax::ExplicitBE][w.below(3) as usize];
    let gcfg = GenCfg {
        max_depth: 3,
        private: false, // private attributes in Implicit VR become UN: nothing VR-specific to observe
        pixel: true,
        encapsulated: syn == Syntax::ExplicitLE,
        all_undefined: false,
        latin1: false,
        utf8: false,
        other_cs: 0,
        nested_charset: false,
    };
    let mut model = restrict_to(&ds::gen_dataset(w, &gcfg), syn);
    let (strategy, lazy, name) = match cfg {
        0 => (OddLengthStrategy::Accept, false, "accept-eager"),
        1 => (OddLengthStrategy::Accept, true, "accept-lazy"),
        2 => (OddLengthStrategy::NextEven, false, "next-even-eager"),
        3 => (OddLengthStrategy::Fail, false, "fail-eager"),
        4 => (OddLengthStrategy::Fail, false, "even-baseline"),
        5 => (OddLengthStrategy::NextEven, true, "next-even-lazy"),
        _ => (OddLengthStrategy::Fail, true, "fail-lazy"),
    };
    let cands = count_cands(&model);
    let n_odd = if cfg == 4 || cands == 0 {
        0
    } else {
        let mut plan = OddPlan {
            target: w.below(cands as u32) as usize,
            others: [3, 0, 8][w.weighted(&[2, 1, 1]) as usize],
            idx: 0,
        };
        make_odd(w, env, &mut model, false, false, &mut plan)
    };
    if n_odd == 0 && cfg != 4 {
        return Ok(()); // nothing could be made odd (e.g. empty data set)
    }
    let hidden_pad = matches!(strategy, OddLengthStrategy::NextEven);
    // NextEven: some defined-length items / sequences declare an odd length too (one less than their content)
    let odd_containers = if hidden_pad && w.chance(1, 2) { (w.below(u32::MAX) as u64) << 32 | w.below(u32::MAX) as u64 } else { 0 };
    let (bytes, layout) = ds::encode_odd(&model, syn, None, hidden_pad, true, odd_containers).map_err(|e| Violation::new("harness", "HARNESS-PANIC@c07", e))?;
    let lens = layout.lens;
    let is_odd = |l: &ds::LenRec| l.declared != ds::UNDEF && l.declared % 2 == 1;
    if lens.iter().any(|l| is_odd(l) && matches!(l.kind, ds::LenKind::Item)) {
        env.probe("odd-item-length");
    }
    if lens.iter().any(|l| is_odd(l) && matches!(l.kind, ds::LenKind::Seq)) {
        env.probe("odd-sequence-length");
    }
    // primitive element headers in stream order with their declared lengths
    let exp: Vec<(ds::Tag, u32)> = lens.iter().filter(|l| l.kind == ds::LenKind::Prim).map(|l| (l.tag, l.declared)).collect();
    // (a zero-length fragment has no value token)
    let exp_frags: Vec<u32> = lens.iter().filter(|l| l.kind == ds::LenKind::Frag && l.declared > 0).map(|l| l.declared).collect();
    env.with(|e| e.obs.note_with(|| format!("workload: {} {} odd={} containers={:x} {}", name, syn.name(), n_odd, odd_containers, describe(&model))));

    let src = SimSource::new(
        bytes.clone(),
        env,
        SrcCfg {
            short: true,
            interrupted: true,
            ..Default::default()
        },
    );
    let handed: Arc<AtomicUsize> = src.handed_shared.clone();
    let pos = Arc::new(AtomicU64::new(0));
    let ts = ts_of(syn);
    let dec = StatefulDecoder::new_with_ts(src, &ts, 0).map_err(|e| Violation::new("harness", "HARNESS-PANIC@c07", format!("{}", e)))?;
    let rec = Rec {
        inner: dec,
        pos: pos.clone(),
    };
    let mut opts = DataSetReaderOptions::default();
    opts.odd_length = strategy;
    // binary and text values alike are also fetched as raw bytes (another family of value readers)
    if w.chance(1, 3) {
        opts.value_read = ValueReadStrategy::Raw;
    }
    let who = format!("{}:{}", name, syn.name());
    let mut seen: Vec<(ds::Tag, u32)> = Vec::new();
    let mut seen_frags: Vec<u32> = Vec::new();
    let mut error: Option<String> = None;
    let mut ntok = 0usize;
    let check_pos = |ntok: usize, what: &str| -> RunResult {
        let p = pos.load(Ordering::SeqCst);
        let h = handed.load(Ordering::SeqCst) as u64;
        if p != h {
            let d = p as i64 - h as i64;
            return Err(Violation::new(
                "position-equals-consumed",
                format!("c07:{}:position-off", name),
                format!("after token {} ({}) the reader reports position {} but the source has handed out {} bytes (difference {}) [{}]", ntok, what, p, h, d, who),
            ));
        }
        Ok(())
    };
    if lazy {
        let mut lopts = dicom_parser::dataset::lazy_read::LazyDataSetReaderOptions::default();
        lopts.odd_length = strategy;
        let mut rd = LazyDataSetReader::new_with_options(rec, lopts);
        let _ = SpecificCharacterSet::default();
        let style = w.below(4);
        let mut after_bot = false;
        loop {
            let tok = match rd.advance() {
                None => break,
                Some(Ok(t)) => t,
                Some(Err(e)) => {
                    error = Some(format!("{}", e));
                    break;
                }
            };
            ntok += 1;
            let what = match &tok {
                LazyDataToken::ElementHeader(h) => {
                    seen.push(((h.tag().0, h.tag().1), h.length().0));
                    "element header"
                }
                LazyDataToken::LazyValue { .. } => "lazy value",
                LazyDataToken::LazyItemValue { len, .. } => {
                    // the first item of a pixel sequence is the offset table
                    if after_bot {
                        seen_frags.push(*len);
                    }
                    "lazy item value"
                }
                LazyDataToken::PixelSequenceStart => {
                    after_bot = false;
                    "structure token"
                }
                LazyDataToken::ItemEnd => {
                    after_bot = true;
                    "structure token"
                }
                _ => "structure token",
            };
            // values are fetched (three ways) or skipped, by the seed
            let lazy_val = matches!(tok, LazyDataToken::LazyValue { .. } | LazyDataToken::LazyItemValue { .. });
            if lazy_val {
                let how = if style == 3 { w.below(4) } else { style };
                let is_elem = matches!(tok, LazyDataToken::LazyValue { .. });
                let r = match how {
                    1 => tok.skip().map_err(|e| format!("{}", e)),
                    2 => tok.read_value_into(std::io::sink()).map_err(|e| format!("{}", e)),
                    3 if is_elem => tok.into_value_with_strategy(ValueReadStrategy::Raw).map(|_| ()).map_err(|e| format!("{}", e)),
                    _ => tok.into_owned().map(|_| ()).map_err(|e| format!("{}", e)),
                };
                if let Err(e) = r {
                    error = Some(e);
                    break;
                }
            }
            check_pos(ntok, what)?;
            check!(ntok < 100_000, "terminates", format!("c07:{}:runaway", name), "token stream does not end");
        }
    } else {
        let rd = DataSetReader::new(rec, opts);
        for tok in rd {
            let tok = match tok {
                Ok(t) => t,
                Err(e) => {
                    error = Some(format!("{}", e));
                    break;
                }
            };
            ntok += 1;
            let what = match &tok {
                DataToken::ElementHeader(h) => {
                    seen.push(((h.tag().0, h.tag().1), h.length().0));
                    "element header"
                }
                DataToken::PrimitiveValue(_) => "primitive value",
                DataToken::ItemValue(v) => {
                    seen_frags.push(v.len() as u32);
                    "fragment value"
                }
                _ => "structure token",
            };
            check_pos(ntok, what)?;
            check!(ntok < 100_000, "terminates", format!("c07:{}:runaway", name), "token stream does not end");
        }
    }
    let _ = Tag(0, 0);
    match strategy {
        OddLengthStrategy::Fail => {
            match first_odd(&lens) {
                Some(j) => {
                    env.probe("fail-reported");
                    // primitive element headers that precede the first odd declared length (of any kind)
                    let k = lens[..j].iter().filter(|l| l.kind == ds::LenKind::Prim).count();
                    let what = format!("{:?} length {} at byte {}", lens[j].kind, lens[j].declared, lens[j].off);
                    check!(error.is_some(), "fail-strategy-reports", format!("c07:{}:no-error", name), "strategy Fail read a stream with an odd length ({}) without reporting an error [{}]", what, who);
                    check!(
                        seen.len() == k && seen[..] == exp[..k],
                        "fail-strategy-reports",
                        format!("c07:{}:wrong-place", name),
                        "strategy Fail: error after {} element headers, but {} precede the first odd length ({}) [{}]",
                        seen.len(),
                        k,
                        what,
                        who
                    );
                }
                None => {
                    check!(error.is_none(), "even-stream-reads", "c07:even-baseline:error", "even-length stream failed: {:?} [{}]", error, who);
                    check!(seen == exp, "even-stream-reads", "c07:even-baseline:headers", "even-length stream: headers differ [{}]", who);
                    check!(seen_frags == exp_frags, "even-stream-reads", "c07:even-baseline:fragments", "even-length stream: fragment lengths differ [{}]", who);
                }
            }
        }
        OddLengthStrategy::Accept | OddLengthStrategy::NextEven => {
            let bump = if hidden_pad { 1 } else { 0 };
            let expv: Vec<(ds::Tag, u32)> = exp.iter().map(|(t, l)| (*t, if l % 2 == 1 { l + bump } else { *l })).collect();
            let expf: Vec<u32> = exp_frags.iter().map(|l| if l % 2 == 1 { l + bump } else { *l }).collect();
            if let Some(e) = &error {
                fail!("odd-length-accepted", format!("c07:{}:error", name), "reader failed on a stream with odd lengths under strategy {:?}: {} (after {} of {} element headers) [{}]", strategy, e, seen.len(), expv.len(), who);
            }
            let n = seen.len().min(expv.len());
            for i in 0..n {
                check!(
                    seen[i] == expv[i],
                    "stays-aligned",
                    format!("c07:{}:misaligned", name),
                    "element header {}: read ({:04X},{:04X}) length {} but the stream has ({:04X},{:04X}) length {}: the reader lost alignment [{}]",
                    i,
                    seen[i].0 .0,
                    seen[i].0 .1,
                    seen[i].1,
                    expv[i].0 .0,
                    expv[i].0 .1,
                    expv[i].1,
                    who
                );
            }
            check!(seen.len() == expv.len(), "stays-aligned", format!("c07:{}:count", name), "{} element headers read, the stream has {} [{}]", seen.len(), expv.len(), who);
            check!(seen_frags == expf, "stays-aligned", format!("c07:{}:fragments", name), "fragment lengths read {:?}, the stream has {:?} [{}]", seen_frags, expf, who);
            let h = handed.load(Ordering::SeqCst);
            check!(h == bytes.len(), "consumes-all", format!("c07:{}:not-consumed", name), "{} of {} bytes consumed [{}]", h, bytes.len(), who);
        }
        _ => {}
    }
    Ok(())
}
