//! C07 — odd declared lengths per strategy; reported position == bytes the
//! source handed out, after every token.

use crate::dsbuild::*;
use crate::framework::CheckDef;
use crate::simio::*;
use dcmref::ds::{self, Elem, GenCfg, Prim, Syntax, Val};
use dicom_core::header::{DataElementHeader, HasLength, Header, SequenceItemHeader};
use dicom_core::value::PrimitiveValue;
use dicom_core::Tag;
use dicom_encoding::text::SpecificCharacterSet;
use dicom_parser::dataset::lazy_read::LazyDataSetReader;
use dicom_parser::dataset::read::{DataSetReader, DataSetReaderOptions, OddLengthStrategy};
use dicom_parser::dataset::{DataToken, LazyDataToken};
use dicom_parser::stateful::decode::{StatefulDecode, StatefulDecoder};
use simcore::{check, fail, RunResult, Tape, Violation};
use std::sync::atomic::{AtomicU64, AtomicUsize, Ordering};
use std::sync::Arc;

pub fn def() -> CheckDef {
    CheckDef {
        id: "C07",
        level: "exploration",
        configs: &["accept-eager", "accept-lazy", "next-even-eager", "fail-eager", "even-baseline"],
        quick_runs: 200_000,
        thorough_runs: 4_000_000,
        run,
        rule: "one run = one generated data set in which seed-chosen elements (every VR, including fixed-width binary VRs whose \
               length is not a multiple of the unit; also inside items and defined-length sequences) carry an odd declared \
               length, encoded by the independent encoder in one of the three uncompressed syntaxes, served through a simulated \
               source with seed-chosen short reads and EINTR and read token by token by the real eager or lazy reader under one \
               odd-length strategy. A recording wrapper around the public StatefulDecode notes position() after every decoder \
               call; the source counts the bytes it handed out. Oracle after EVERY token: position == bytes handed out; Accept: \
               following headers are the expected ones (reader stayed aligned) and the whole stream is consumed; NextEven: one \
               more byte per odd value; Fail: error at the first odd element, none before. distinct = distinct hashed \
               environment event sequences; non-trivial = a short read or EINTR fired",
        real: &["DataSetReader (sanitize_length, sequence delimitation)", "LazyDataSetReader", "StatefulDecoder value readers and position accounting"],
        stub: &["byte source (SimSource)", "recording StatefulDecode wrapper (observer only)", "independent encoder producing the odd-length streams"],
        assumptions: &["no buffering layer sits between StatefulDecoder and the simulated source, so the byte comparison is exact"],
        required_probes: &["odd-text", "odd-fixed-width", "odd-in-item", "odd-defined-sequence", "fail-reported"],
        net: false,
    }
}

/// observer around the real decoder
struct Rec<D> {
    inner: D,
    pos: Arc<AtomicU64>,
}

impl<D: StatefulDecode> Rec<D> {
    fn note(&self) {
        self.pos.store(self.inner.position(), Ordering::SeqCst);
    }
}

impl<D: StatefulDecode> StatefulDecode for Rec<D> {
    type Reader = D::Reader;
    fn decode_header(&mut self) -> dicom_parser::stateful::decode::Result<DataElementHeader> {
        let r = self.inner.decode_header();
        self.note();
        r
    }
    fn decode_item_header(&mut self) -> dicom_parser::stateful::decode::Result<SequenceItemHeader> {
        let r = self.inner.decode_item_header();
        self.note();
        r
    }
    fn read_value(&mut self, header: &DataElementHeader) -> dicom_parser::stateful::decode::Result<PrimitiveValue> {
        let r = self.inner.read_value(header);
        self.note();
        r
    }
    fn read_value_preserved(&mut self, header: &DataElementHeader) -> dicom_parser::stateful::decode::Result<PrimitiveValue> {
        let r = self.inner.read_value_preserved(header);
        self.note();
        r
    }
    fn read_value_bytes(&mut self, header: &DataElementHeader) -> dicom_parser::stateful::decode::Result<PrimitiveValue> {
        let r = self.inner.read_value_bytes(header);
        self.note();
        r
    }
    fn read_to_vec(&mut self, length: u32, vec: &mut Vec<u8>) -> dicom_parser::stateful::decode::Result<()> {
        let r = self.inner.read_to_vec(length, vec);
        self.note();
        r
    }
    fn read_u32_to_vec(&mut self, length: u32, vec: &mut Vec<u32>) -> dicom_parser::stateful::decode::Result<()> {
        let r = self.inner.read_u32_to_vec(length, vec);
        self.note();
        r
    }
    fn read_to<W>(&mut self, length: u32, out: W) -> dicom_parser::stateful::decode::Result<()>
    where
        Self: Sized,
        W: std::io::Write,
    {
        let r = self.inner.read_to(length, out);
        self.note();
        r
    }
    fn skip_bytes(&mut self, length: u32) -> dicom_parser::stateful::decode::Result<()> {
        let r = self.inner.skip_bytes(length);
        self.note();
        r
    }
    fn seek(&mut self, position: u64) -> dicom_parser::stateful::decode::Result<()>
    where
        Self::Reader: std::io::Seek,
    {
        let r = self.inner.seek(position);
        self.note();
        r
    }
    fn position(&self) -> u64 {
        self.inner.position()
    }
}

/// Make seed-chosen primitive elements odd. Returns the number made odd.
fn make_odd(w: &mut Tape, env: &EnvRef, elems: &mut [Elem], in_item: bool, in_defined: bool, force: &mut bool) -> usize {
    let mut n = 0;
    for e in elems.iter_mut() {
        match &mut e.val {
            Val::Prim(p) => {
                let pick = *force || w.chance(1, 3);
                if !pick {
                    continue;
                }
                let u = ds::unit(&e.vr);
                let raw: Option<Vec<u8>> = match p {
                    Prim::Text(b) | Prim::Bytes(b) => {
                        let mut v = b.clone();
                        if v.len() % 2 == 0 {
                            v.push(b'Z');
                        }
                        env.probe("odd-text");
                        Some(v)
                    }
                    _ if u > 0 => {
                        // a fixed-width value whose length is odd (hence not a multiple of the unit)
                        let k = w.below(3) as usize;
                        let len = k * u + [1, 3, 5, 7][w.below(4) as usize % if u >= 8 { 4 } else if u >= 4 { 2 } else { 1 }];
                        env.probe("odd-fixed-width");
                        Some(simcore::pattern_bytes(1, len).iter().map(|b| b | 0x20).collect())
                    }
                    _ => None,
                };
                if let Some(v) = raw {
                    *p = Prim::Raw(v);
                    n += 1;
                    *force = false;
                    if in_item {
                        env.probe("odd-in-item");
                    }
                    if in_defined {
                        env.probe("odd-defined-sequence");
                    }
                }
            }
            Val::Seq { items, undef } => {
                let def = !*undef;
                for it in items.iter_mut() {
                    n += make_odd(w, env, &mut it.elems, true, in_defined || def || !it.undef, force);
                }
            }
            Val::Frags { .. } => {}
        }
    }
    n
}

/// primitive elements in stream order with their declared lengths
fn expected_headers(elems: &[Elem], syn: Syntax, out: &mut Vec<(ds::Tag, u32)>) {
    for e in elems {
        match &e.val {
            Val::Prim(_) => out.push((e.tag, ds::declared_len(e, syn).unwrap())),
            Val::Seq { items, .. } => {
                for it in items {
                    expected_headers(&it.elems, syn, out);
                }
            }
            Val::Frags { .. } => {}
        }
    }
}

fn first_odd(exp: &[(ds::Tag, u32)]) -> Option<usize> {
    exp.iter().position(|x| x.1 % 2 == 1)
}

fn run(cfg: usize, w: &mut Tape, env: &EnvRef) -> RunResult {
    let syn = [Syntax::ImplicitLE, Syntax::ExplicitLE, Syntax::ExplicitBE][w.below(3) as usize];
    let gcfg = GenCfg {
        max_depth: 3,
        private: false, // private attributes in Implicit VR become UN: nothing VR-specific to observe
        pixel: false,
        encapsulated: false,
        all_undefined: false,
        latin1: false,
    };
    let mut model = ds::gen_dataset(w, &gcfg);
    let (strategy, lazy, name) = match cfg {
        0 => (OddLengthStrategy::Accept, false, "accept-eager"),
        1 => (OddLengthStrategy::Accept, true, "accept-lazy"),
        2 => (OddLengthStrategy::NextEven, false, "next-even-eager"),
        3 => (OddLengthStrategy::Fail, false, "fail-eager"),
        _ => (OddLengthStrategy::Fail, false, "even-baseline"),
    };
    let mut force = cfg != 4;
    let n_odd = if cfg == 4 { 0 } else { make_odd(w, env, &mut model, false, false, &mut force) };
    if n_odd == 0 && cfg != 4 {
        return Ok(()); // nothing could be made odd (e.g. empty data set)
    }
    let hidden_pad = matches!(strategy, OddLengthStrategy::NextEven);
    let (bytes, _) = ds::encode_opts(&model, syn, None, hidden_pad).map_err(|e| Violation::new("harness", "HARNESS-PANIC@c07", e))?;
    let mut exp = Vec::new();
    expected_headers(&model, syn, &mut exp);
    env.with(|e| e.obs.note_with(|| format!("workload: {} {} odd={} {}", name, syn.name(), n_odd, describe(&model))));

    let src = SimSource::new(
        bytes.clone(),
        env,
        SrcCfg {
            short: true,
            interrupted: true,
            ..Default::default()
        },
    );
    let handed: Arc<AtomicUsize> = src.handed_shared.clone();
    let pos = Arc::new(AtomicU64::new(0));
    let ts = ts_of(syn);
    let dec = StatefulDecoder::new_with_ts(src, &ts, 0).map_err(|e| Violation::new("harness", "HARNESS-PANIC@c07", format!("{}", e)))?;
    let rec = Rec {
        inner: dec,
        pos: pos.clone(),
    };
    let mut opts = DataSetReaderOptions::default();
    opts.odd_length = strategy;
    let who = format!("{}:{}", name, syn.name());
    let mut seen: Vec<(ds::Tag, u32)> = Vec::new();
    let mut error: Option<String> = None;
    let mut ntok = 0usize;
    let check_pos = |ntok: usize, what: &str| -> RunResult {
        let p = pos.load(Ordering::SeqCst);
        let h = handed.load(Ordering::SeqCst) as u64;
        if p != h {
            let d = p as i64 - h as i64;
            return Err(Violation::new(
                "position-equals-consumed",
                format!("c07:{}:position-off", name),
                format!("after token {} ({}) the reader reports position {} but the source has handed out {} bytes (difference {}) [{}]", ntok, what, p, h, d, who),
            ));
        }
        Ok(())
    };
    if lazy {
        let mut lopts = dicom_parser::dataset::lazy_read::LazyDataSetReaderOptions::default();
        lopts.odd_length = strategy;
        let mut rd = LazyDataSetReader::new_with_options(rec, lopts);
        let _ = SpecificCharacterSet::default();
        let style = w.below(3);
        loop {
            let tok = match rd.advance() {
                None => break,
                Some(Ok(t)) => t,
                Some(Err(e)) => {
                    error = Some(format!("{}", e));
                    break;
                }
            };
            ntok += 1;
            let what = match &tok {
                LazyDataToken::ElementHeader(h) => {
                    seen.push(((h.tag().0, h.tag().1), h.length().0));
                    "element header"
                }
                LazyDataToken::LazyValue { .. } => "lazy value",
                LazyDataToken::LazyItemValue { .. } => "lazy item value",
                _ => "structure token",
            };
            // values are fetched or skipped, by the seed
            let lazy_val = matches!(tok, LazyDataToken::LazyValue { .. } | LazyDataToken::LazyItemValue { .. });
            if lazy_val {
                let skip = style == 1 || (style == 2 && w.chance(1, 2));
                let r = if skip { tok.skip().map_err(|e| format!("{}", e)) } else { tok.into_owned().map(|_| ()).map_err(|e| format!("{}", e)) };
                if let Err(e) = r {
                    error = Some(e);
                    break;
                }
            }
            check_pos(ntok, what)?;
            check!(ntok < 100_000, "terminates", format!("c07:{}:runaway", name), "token stream does not end");
        }
    } else {
        let rd = DataSetReader::new(rec, opts);
        for tok in rd {
            let tok = match tok {
                Ok(t) => t,
                Err(e) => {
                    error = Some(format!("{}", e));
                    break;
                }
            };
            ntok += 1;
            let what = match &tok {
                DataToken::ElementHeader(h) => {
                    seen.push(((h.tag().0, h.tag().1), h.length().0));
                    "element header"
                }
                DataToken::PrimitiveValue(_) => "primitive value",
                _ => "structure token",
            };
            check_pos(ntok, what)?;
            check!(ntok < 100_000, "terminates", format!("c07:{}:runaway", name), "token stream does not end");
        }
    }
    let _ = Tag(0, 0);
    match strategy {
        OddLengthStrategy::Fail => {
            match first_odd(&exp) {
                Some(k) => {
                    env.probe("fail-reported");
                    check!(error.is_some(), "fail-strategy-reports", format!("c07:{}:no-error", name), "strategy Fail read a stream with an odd length at primitive element {} without reporting an error [{}]", k, who);
                    check!(
                        seen.len() == k && seen[..] == exp[..k],
                        "fail-strategy-reports",
                        format!("c07:{}:wrong-place", name),
                        "strategy Fail: error after {} element headers, the first odd length is at primitive element {} [{}]",
                        seen.len(),
                        k,
                        who
                    );
                }
                None => {
                    check!(error.is_none(), "even-stream-reads", "c07:even-baseline:error", "even-length stream failed: {:?} [{}]", error, who);
                    check!(seen == exp, "even-stream-reads", "c07:even-baseline:headers", "even-length stream: headers differ [{}]", who);
                }
            }
        }
        OddLengthStrategy::Accept | OddLengthStrategy::NextEven => {
            let bump = if hidden_pad { 1 } else { 0 };
            let expv: Vec<(ds::Tag, u32)> = exp.iter().map(|(t, l)| (*t, if l % 2 == 1 { l + bump } else { *l })).collect();
            if let Some(e) = &error {
                fail!("odd-length-accepted", format!("c07:{}:error", name), "reader failed on a stream with odd lengths under strategy {:?}: {} (after {} of {} element headers) [{}]", strategy, e, seen.len(), expv.len(), who);
            }
            let n = seen.len().min(expv.len());
            for i in 0..n {
                check!(
                    seen[i] == expv[i],
                    "stays-aligned",
                    format!("c07:{}:misaligned", name),
                    "element header {}: read ({:04X},{:04X}) length {} but the stream has ({:04X},{:04X}) length {}: the reader lost alignment [{}]",
                    i,
                    seen[i].0 .0,
                    seen[i].0 .1,
                    seen[i].1,
                    expv[i].0 .0,
                    expv[i].0 .1,
                    expv[i].1,
                    who
                );
            }
            check!(seen.len() == expv.len(), "stays-aligned", format!("c07:{}:count", name), "{} element headers read, the stream has {} [{}]", seen.len(), expv.len(), who);
            let h = handed.load(Ordering::SeqCst);
            check!(h == bytes.len(), "consumes-all", format!("c07:{}:not-consumed", name), "{} of {} bytes consumed [{}]", h, bytes.len(), who);
        }
        _ => {}
    }
    Ok(())
}
