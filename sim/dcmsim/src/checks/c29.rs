//! C29 — a dicom-rs requestor and a dicom-rs acceptor agree on the
//! association and respect each other's PDU limits. Both peers are real
//! nodes (sync/async in the four pairings) on a simulated connection.

use crate::checks::c28::{self, gen_cfg, AccCfg, Expected};
use crate::framework::CheckDef;
use crate::nethelp::*;
use crate::simio::EnvRef;
use crate::simnet;
use dcmref::pdu::{self as rp, RItem, RPdu};
use dicom_ul::association::{Association, ClientAssociationOptions, Error};
use dicom_ul::pdu::{PDataValue, PDataValueType, Pdu};
use simcore::{check, fail, RunResult, Tape};
use std::io::Write;

pub fn def() -> CheckDef {
    CheckDef {
        id: "C29",
        level: "exploration",
        configs: &["sync-sync", "sync-async", "async-sync", "async-async"],
        quick_runs: 40_000,
        thorough_runs: 1_000_000,
        run,
        rule: "one run = random ClientAssociationOptions (1-6, rarely 130, contexts over 3 abstract and 5 transfer syntaxes, maximum \
               PDU length from {0, 1018, 1019, default, 32762, 65536, 262138, 262139, 300000, huge}, role selection, extended negotiation, user identity, \
               strict on/off) x random ServerAssociationOptions (as in C28), both REAL nodes (requestor: establish / \
               establish_async through connect(); acceptor: establish / establish_async) in the four sync/async pairings; after \
               establishment each side sends a seed-drawn list of P-DATA PDUs with lengths at and around the peer's maximum \
               (send) and streams (send_pdata), the other side receives them PDU by PDU (receive) or message by message (receive_pdata), by the seed, then the requestor releases. Schedule from the \
               seed: node interleaving, short sends, partial deliveries, short receives. Invariants: identical accepted contexts \
               on both sides and equal to the negotiation model applied to the request found on the wire; each side's view of \
               the peer's maximum; distinct odd context ids on the wire; NoAcceptedPresentationContexts iff the model accepts \
               none; every PDU on the wire <= the receiver's maximum; an over-long send is refused locally and leaves nothing on \
               the wire. distinct = distinct hashed scheduler event sequences; non-trivial = a non-default decision fired",
        real: &["ClientAssociationOptions::establish / establish_async (tcp_connection, establish_impl)", "ServerAssociationOptions::establish / establish_async", "Client/ServerAssociation and async twins: send, receive, send_pdata, release", "std and tokio TcpStream, mio, tokio current-thread runtime"],
        stub: &["TCP/IP (simulated byte queues, connect() interposed)", "application scripts", "negotiation model, independent PS3.8 parser (wire monitor)"],
        assumptions: &["no connection faults here (those are C30/C34)", "a local maximum of 0 makes the acceptor refuse every PDU including the request; such runs end at establishment and are counted by a probe"],
        required_probes: &["established", "none-accepted", "over-long-send-refused", "send-at-limit", "pdata-stream", "max-zero-advertised", "max-above-large-pdu-size", "receive-pdata-on-association"],
        net: true,
    }
}

#[derive(Clone, Debug)]
struct CliCfg {
    contexts: Vec<(&'static str, Vec<&'static str>)>,
    max_pdu: u32,
    strict: bool,
    called: &'static str,
    role: bool,
    ext: bool,
    user: u8,
}

const AS: [&str; 3] = ["1.2.840.10008.5.1.4.1.1.2", "1.2.840.10008.5.1.4.1.1.4", "1.2.840.10008.5.1.4.1.1.7"];
const TS: [&str; 5] = ["1.2.840.10008.1.2", "1.2.840.10008.1.2.1", "1.2.840.10008.1.2.4.50", "1.2.840.10008.1.2.4.90", "1.2.3.4.5.6"];

fn gen_cli(w: &mut Tape, acc: &AccCfg) -> CliCfg {
    let n = match w.weighted(&[4, 4, 0]) {
        0 => 1,
        _ => 2 + w.below(5),
    };
    let n = if w.chance(1, 60) { 130 } else { n };
    let mut contexts = Vec::new();
    for _ in 0..n {
        let a = AS[w.below(3) as usize];
        let k = 1 + w.below(3);
        let ts: Vec<&'static str> = (0..k).map(|_| TS[w.below(5) as usize]).collect();
        contexts.push((a, ts));
    }
    CliCfg {
        contexts,
        max_pdu: [16384u32, 0, 1018, 1019, 32762, 65536, 0xFFFF_FFF8, 262_138, 262_139, 300_000][w.below(10) as usize],
        strict: w.chance(1, 2),
        called: if w.chance(3, 4) { acc.ae_title } else { "OTHER" },
        role: w.chance(1, 4),
        ext: w.chance(1, 4),
        user: w.below(4) as u8,
    }
}

fn client_options(c: &CliCfg) -> ClientAssociationOptions<'static> {
    let mut o = ClientAssociationOptions::new().calling_ae_title("THIS-SCU").called_ae_title(c.called).max_pdu_length(c.max_pdu).strict(c.strict);
    for (a, ts) in &c.contexts {
        o = o.with_presentation_context(*a, ts.clone());
    }
    if c.role {
        o = o.with_role_selection(AS[0], true, true);
    }
    if c.ext {
        o = o.with_extended_negotiation(AS[1], vec![1u8, 2, 3]);
    }
    match c.user {
        1 => o = o.username("user"),
        2 => o = o.username_password("user", "secret"),
        3 => o = o.jwt("a.b.c"),
        _ => {}
    }
    o
}

/// one scripted transfer after establishment
#[derive(Clone, Debug)]
enum Act {
    /// a single P-DATA PDU whose PDU-length is peer_max + delta, with n PDVs
    Send { delta: i32, pdvs: u8, small: u32 },
    /// a send_pdata stream of len bytes
    Stream { len: u32 },
}

fn gen_script(w: &mut Tape, allow_stream: bool) -> Vec<Act> {
    let n = w.below(4);
    (0..n)
        .map(|_| {
            // AsyncPDataWriter::drop needs a multi-thread runtime (block_in_place): streams only on sync sides
            if w.chance(1, 4) && allow_stream {
                Act::Stream { len: w.below(40_000) }
            } else {
                Act::Send {
                    delta: [0, -1, 1, -6, 6, 2, -2, 12][w.below(8) as usize],
                    pdvs: 1 + w.below(3) as u8,
                    small: w.below(2000),
                }
            }
        })
        .collect()
}

#[derive(Default, Clone, Debug)]
struct SideResult {
    done: bool,
    established: bool,
    err: String,
    err_none_accepted: bool,
    contexts: Vec<(u8, String, String)>,
    local_max: u32,
    peer_max: u32,
    /// user_variables() of the association as (sub-item type, content)
    user_vars: Vec<(u8, Vec<u8>)>,
    /// per scripted send: (PDU length attempted, Ok?, too-long error?)
    sends: Vec<(u32, bool, bool)>,
    received_pdata: usize,
    /// payload bytes received through receive() and receive_pdata()
    received_bytes: u64,
    used_receive_pdata: bool,
    release_ok: Option<bool>,
}

fn make_pdu(peer_max: u32, act: &Act) -> (Pdu, u32) {
    if let Act::Send { delta, pdvs, small } = act {
        // near the limit when the limit is moderate, otherwise a small PDU
        let target: i64 = if peer_max <= 1 << 20 { peer_max as i64 + *delta as i64 } else { 6 * *pdvs as i64 + *small as i64 };
        let n = *pdvs as i64;
        let payload_total = (target - 6 * n).max(0);
        let mut data = Vec::new();
        for i in 0..n {
            let l = if i + 1 == n { payload_total - (payload_total / n) * (n - 1) } else { payload_total / n };
            data.push(PDataValue {
                presentation_context_id: 1,
                value_type: PDataValueType::Data,
                is_last: i + 1 == n,
                data: vec![0x5A; l as usize],
            });
        }
        let len = (6 * n + payload_total) as u32;
        (Pdu::PData { data }, len)
    } else {
        unreachable!()
    }
}

macro_rules! after_establish_sync {
    ($assoc:expr, $res:expr, $script:expr, $modes:expr) => {{
        let a = &mut $assoc;
        {
            let mut g = $res.lock().unwrap();
            g.established = true;
            g.contexts = a.presentation_contexts().iter().filter(|p| c28_reason(&p.reason) == 0).map(|p| (p.id, p.abstract_syntax.clone(), p.transfer_syntax.clone())).collect();
            g.local_max = a.local_max_pdu_length();
            g.peer_max = a.peer_max_pdu_length();
            g.user_vars = crate::convert::uservars_subs(a.user_variables());
        }
        let peer_max = a.peer_max_pdu_length();
        for act in $script.iter() {
            match act {
                Act::Send { .. } => {
                    let (pdu, len) = make_pdu(peer_max, act);
                    let r = a.send(&pdu);
                    let too_long = matches!(r, Err(Error::SendTooLongPdu { .. }));
                    $res.lock().unwrap().sends.push((len, r.is_ok(), too_long));
                }
                Act::Stream { len } => {
                    let mut wr = a.send_pdata(1);
                    let _ = wr.write_all(&vec![0x33u8; *len as usize]);
                    let _ = wr.finish();
                    $res.lock().unwrap().sends.push((u32::MAX, true, false));
                }
            }
        }
        // marker: end of my transfers
        let _ = a.send(&Pdu::PData {
            data: vec![PDataValue {
                presentation_context_id: 1,
                value_type: PDataValueType::Command,
                is_last: true,
                data: vec![0xEE, 0xEE],
            }],
        });
        // receive the peer's transfers up to its marker: PDU by PDU (receive) or message by message
        // (receive_pdata), as drawn for this side
        let mut modes = $modes.iter();
        loop {
            if *modes.next().unwrap_or(&false) {
                use std::io::Read;
                let mut v = Vec::new();
                let r = a.receive_pdata().read_to_end(&mut v);
                let mut g = $res.lock().unwrap();
                g.received_bytes += v.len() as u64;
                g.used_receive_pdata = true;
                if r.is_err() || v == vec![0xEE, 0xEE] {
                    break;
                }
            } else {
                match a.receive() {
                    Ok(Pdu::PData { data }) => {
                        let mut g = $res.lock().unwrap();
                        g.received_pdata += 1;
                        g.received_bytes += data.iter().map(|v| v.data.len() as u64).sum::<u64>();
                        if data.iter().any(|v| v.value_type == PDataValueType::Command && v.data == vec![0xEE, 0xEE]) {
                            break;
                        }
                    }
                    Ok(_) => break,
                    Err(_) => break,
                }
            }
        }
    }};
}

macro_rules! after_establish_async {
    ($assoc:expr, $res:expr, $script:expr, $modes:expr) => {{
        use tokio::io::AsyncWriteExt;
        let a = &mut $assoc;
        {
            let mut g = $res.lock().unwrap();
            g.established = true;
            g.contexts = a.presentation_contexts().iter().filter(|p| c28_reason(&p.reason) == 0).map(|p| (p.id, p.abstract_syntax.clone(), p.transfer_syntax.clone())).collect();
            g.local_max = a.local_max_pdu_length();
            g.peer_max = a.peer_max_pdu_length();
            g.user_vars = crate::convert::uservars_subs(a.user_variables());
        }
        let peer_max = a.peer_max_pdu_length();
        for act in $script.iter() {
            match act {
                Act::Send { .. } => {
                    let (pdu, len) = make_pdu(peer_max, act);
                    let r = a.send(&pdu).await;
                    let too_long = matches!(r, Err(Error::SendTooLongPdu { .. }));
                    $res.lock().unwrap().sends.push((len, r.is_ok(), too_long));
                }
                Act::Stream { len } => {
                    let mut wr = a.send_pdata(1);
                    let _ = wr.write_all(&vec![0x33u8; *len as usize]).await;
                    let _ = wr.finish().await;
                    $res.lock().unwrap().sends.push((u32::MAX, true, false));
                }
            }
        }
        let _ = a
            .send(&Pdu::PData {
                data: vec![PDataValue {
                    presentation_context_id: 1,
                    value_type: PDataValueType::Command,
                    is_last: true,
                    data: vec![0xEE, 0xEE],
                }],
            })
            .await;
        let mut modes = $modes.iter();
        loop {
            if *modes.next().unwrap_or(&false) {
                use tokio::io::AsyncReadExt;
                let mut v = Vec::new();
                let r = a.receive_pdata().read_to_end(&mut v).await;
                let mut g = $res.lock().unwrap();
                g.received_bytes += v.len() as u64;
                g.used_receive_pdata = true;
                if r.is_err() || v == vec![0xEE, 0xEE] {
                    break;
                }
            } else {
                match a.receive().await {
                    Ok(Pdu::PData { data }) => {
                        let mut g = $res.lock().unwrap();
                        g.received_pdata += 1;
                        g.received_bytes += data.iter().map(|v| v.data.len() as u64).sum::<u64>();
                        if data.iter().any(|v| v.value_type == PDataValueType::Command && v.data == vec![0xEE, 0xEE]) {
                            break;
                        }
                    }
                    Ok(_) => break,
                    Err(_) => break,
                }
            }
        }
    }};
}

fn c28_reason(r: &dicom_ul::pdu::PresentationContextResultReason) -> u8 {
    crate::convert::result_reason_code(r)
}

fn note_err(res: &Shared<SideResult>, e: &Error) {
    let mut g = res.lock().unwrap();
    g.err = format!("{}", e);
    g.err_none_accepted = matches!(e, Error::NoAcceptedPresentationContexts { .. });
}

fn spawn_requestor(cli: &CliCfg, script: Vec<Act>, modes: Vec<bool>, is_async: bool, res: &Shared<SideResult>) {
    let cli = cli.clone();
    let res = res.clone();
    simnet::spawn_node("requestor", is_async, move || {
        if is_async {
            let rt = async_rt();
            rt.block_on(async {
                match client_options(&cli).establish_async("10.0.0.1:104").await {
                    Ok(mut a) => {
                        after_establish_async!(a, res, script, modes);
                        let r = a.release().await;
                        res.lock().unwrap().release_ok = Some(r.is_ok());
                    }
                    Err(e) => note_err(&res, &e),
                }
            });
        } else {
            match client_options(&cli).establish("10.0.0.1:104") {
                Ok(mut a) => {
                    after_establish_sync!(a, res, script, modes);
                    let r = a.release();
                    res.lock().unwrap().release_ok = Some(r.is_ok());
                }
                Err(e) => note_err(&res, &e),
            }
        }
        res.lock().unwrap().done = true;
    });
}

fn acceptor_options(cfg: &AccCfg) -> dicom_ul::association::ServerAssociationOptions<'static, dicom_ul::association::server::AcceptAny, dicom_ul::association::server::DefaultNegotiation> {
    let mut o = dicom_ul::association::ServerAssociationOptions::new().ae_title(cfg.ae_title).max_pdu_length(cfg.max_pdu).strict(cfg.strict).promiscuous(cfg.promiscuous);
    for a in &cfg.abstracts {
        o = o.with_abstract_syntax(*a);
    }
    for t in &cfg.transfers {
        o = o.with_transfer_syntax(*t);
    }
    o
}

fn spawn_acceptor(cfg: &AccCfg, script: Vec<Act>, modes: Vec<bool>, fd: i32, is_async: bool, res: &Shared<SideResult>) {
    let cfg = cfg.clone();
    let res = res.clone();
    simnet::spawn_node("acceptor", is_async, move || {
        if is_async {
            let rt = async_rt();
            rt.block_on(async {
                let stream = tokio_stream(fd);
                let r = if cfg.check_called { acceptor_options(&cfg).accept_called_ae_title().establish_async(stream).await } else { acceptor_options(&cfg).establish_async(stream).await };
                match r {
                    Ok(mut a) => {
                        after_establish_async!(a, res, script, modes);
                        // wait for the release request and answer it
                        if let Ok(Pdu::ReleaseRQ) = a.receive().await {
                            let _ = a.send(&Pdu::ReleaseRP).await;
                        }
                    }
                    Err(e) => note_err(&res, &e),
                }
            });
        } else {
            let stream = std_stream(fd);
            let r = if cfg.check_called { acceptor_options(&cfg).accept_called_ae_title().establish(stream) } else { acceptor_options(&cfg).establish(stream) };
            match r {
                Ok(mut a) => {
                    after_establish_sync!(a, res, script, modes);
                    if let Ok(Pdu::ReleaseRQ) = a.receive() {
                        let _ = a.send(&Pdu::ReleaseRP);
                    }
                }
                Err(e) => note_err(&res, &e),
            }
        }
        res.lock().unwrap().done = true;
    });
}

fn trim(s: &str) -> String {
    s.trim_end_matches(['\0', ' ']).to_string()
}

fn eff_max(advertised: u32) -> u64 {
    if advertised == 0 {
        ((u32::MAX & !1) - 6) as u64
    } else {
        (advertised as u64).min(((u32::MAX & !1) - 6) as u64)
    }
}

fn run(cfgi: usize, w: &mut Tape, env: &EnvRef) -> RunResult {
    let req_async = cfgi == 2 || cfgi == 3;
    let acc_async = cfgi == 1 || cfgi == 3;
    let mut acc = gen_cfg(w);
    acc.max_pdu = [16384u32, 1018, 1019, 32762, 65536, 0, 0xFFFF_FFF8, 262_138, 262_139, 300_000][w.below(10) as usize];
    let cli = gen_cli(w, &acc);
    let req_script = gen_script(w, !req_async);
    let acc_script = gen_script(w, !acc_async);
    // how each side takes the peer's messages: false = receive() PDU by PDU, true = receive_pdata() message by message
    let req_modes: Vec<bool> = (0..8).map(|_| w.chance(1, 3)).collect();
    let acc_modes: Vec<bool> = (0..8).map(|_| w.chance(1, 3)).collect();
    env.with(|e| e.obs.note_with(|| format!("requestor {:?} script {:?}; acceptor {:?} script {:?}", cli, req_script, acc, acc_script)));
    if cli.max_pdu == 0 || acc.max_pdu == 0 {
        env.probe("max-zero-advertised");
    }

    simnet::begin(env, w.below(1 << 30) as u64);
    let conn = simnet::connection(Some(104));
    let rres = shared(SideResult::default());
    let ares = shared(SideResult::default());
    spawn_acceptor(&acc, acc_script.clone(), acc_modes.clone(), simnet::fd_of(conn.a), acc_async, &ares);
    spawn_requestor(&cli, req_script.clone(), req_modes.clone(), req_async, &rres);
    let rep = simnet::run(60_000);
    let end = simnet::end();
    if end.needs_restart {
        simnet::request_restart();
    }
    for n in &end.nodes {
        if let Some(p) = &n.panicked {
            fail!("no-panic", format!("c29:panic:{}", n.name), "node {} panicked: {}", n.name, p);
        }
    }
    check!(rep.finished, "terminates", "c29:stuck", "nodes did not finish: {:?} after {} steps (quiesced {})", rep.stuck, rep.steps, rep.quiesced);
    let r = rres.lock().unwrap().clone();
    let a = ares.lock().unwrap().clone();

    // the request as it went on the wire
    let (rq_pdus, _) = wire_pdus(&end.eps[conn.b]);
    let rq = match rq_pdus.first() {
        Some(Ok(RPdu::AssocRq(q))) => q.clone(),
        Some(other) => fail!("wire", "c29:first-pdu-not-rq", "the requestor's first PDU is {:?}", other.as_ref().map(crate::convert::short)),
        None => {
            // nothing sent: the requestor must have failed locally
            check!(!r.established, "wire", "c29:established-without-rq", "established without sending a request");
            return Ok(());
        }
    };
    // distinct odd context ids
    let ids: Vec<u8> = rq.items.iter().filter_map(|i| if let RItem::PcProposed { id, .. } = i { Some(*id) } else { None }).collect();
    let mut sorted = ids.clone();
    sorted.sort();
    sorted.dedup();
    check!(sorted.len() == ids.len(), "context-ids", "c29:duplicate-context-ids", "{} proposed contexts carry only {} distinct ids", ids.len(), sorted.len());
    check!(ids.iter().all(|i| i % 2 == 1), "context-ids", "c29:even-context-id", "an even presentation context id was proposed: {:?}", ids);

    // an acceptor with local maximum 0 (or a strict one with a request longer than its maximum) refuses the request itself
    let rq_len = end.eps[conn.b].sent.len().min(6 + u32::from_be_bytes([end.eps[conn.b].sent[2], end.eps[conn.b].sent[3], end.eps[conn.b].sent[4], end.eps[conn.b].sent[5]]) as usize) - 6;
    if acc.max_pdu < 1018 || (acc.strict && rq_len > acc.max_pdu as usize) {
        check!(!a.established, "limits", "c29:accepted-despite-local-limit", "acceptor with maximum {} (strict {}) established on a request of length {}", acc.max_pdu, acc.strict, rq_len);
        return Ok(());
    }
    let expect = c28::model(&acc, &rq);
    match expect {
        Expected::Reject(_) => {
            check!(!a.established && !r.established, "agreement", "c29:established-on-reject", "the model rejects the association but a side reports it established (requestor {}, acceptor {})", r.established, a.established);
            return Ok(());
        }
        Expected::Accept(ctxs) => {
            let accepted: Vec<(u8, String, String)> = ctxs.iter().filter(|c| c.1 == 0).map(|c| (c.0, String::new(), c.2.clone().unwrap())).collect();
            check!(a.established, "agreement", "c29:acceptor-failed", "the model accepts the association but the acceptor failed: {}", a.err);
            // the requestor may also refuse the answer itself: AC longer than its own maximum in strict mode, or local max < 1018
            let ac_len = {
                let s = &end.eps[conn.a].sent;
                if s.len() >= 6 {
                    u32::from_be_bytes([s[2], s[3], s[4], s[5]]) as usize
                } else {
                    0
                }
            };
            let cli_eff = cli.max_pdu.min((u32::MAX & !1) - 6);
            if cli_eff < 1018 || (cli.strict && ac_len > cli_eff as usize) {
                check!(!r.established, "limits", "c29:requestor-accepted-despite-local-limit", "requestor with maximum {} (strict {}) established on an answer of length {}", cli.max_pdu, cli.strict, ac_len);
                return Ok(());
            }
            if accepted.is_empty() {
                env.probe("none-accepted");
                check!(!r.established && r.err_none_accepted, "none-accepted", "c29:none-accepted-not-reported", "no context is acceptable but the requestor reports established={} err={:?}", r.established, r.err);
                return Ok(());
            }
            check!(r.established, "agreement", "c29:requestor-failed", "contexts {:?} are acceptable but the requestor failed: {}", accepted, r.err);
            env.probe("established");
            // same accepted contexts on both sides, equal to the model
            let rv: Vec<(u8, String)> = r.contexts.iter().map(|c| (c.0, trim(&c.2))).collect();
            let av: Vec<(u8, String)> = a.contexts.iter().map(|c| (c.0, trim(&c.2))).collect();
            let mv: Vec<(u8, String)> = accepted.iter().map(|c| (c.0, c.2.clone())).collect();
            check!(rv == mv, "agreement", "c29:requestor-contexts", "requestor's accepted contexts {:?} differ from the model's {:?}", rv, mv);
            check!(av == mv, "agreement", "c29:acceptor-contexts", "acceptor's accepted contexts {:?} differ from the model's {:?}", av, mv);
            for (x, y) in r.contexts.iter().zip(a.contexts.iter()) {
                check!(trim(&x.1) == trim(&y.1), "agreement", "c29:abstract-syntax-differs", "context {}: requestor says abstract syntax {:?}, acceptor {:?}", x.0, x.1, y.1);
            }
            // each other's maximum
            check!(r.peer_max as u64 == eff_max(acc.max_pdu), "max-pdu", "c29:requestor-view-of-acceptor-max", "requestor thinks the acceptor admits {} but it advertised {}", r.peer_max, acc.max_pdu);
            check!(a.peer_max as u64 == eff_max(cli.max_pdu), "max-pdu", "c29:acceptor-view-of-requestor-max", "acceptor thinks the requestor admits {} but it advertised {}", a.peer_max, cli.max_pdu);
            // the requestor's user variables are the user information of the A-ASSOCIATE-AC as it went over the wire
            if let Some(Ok(RPdu::AssocAc(ac))) = wire_pdus(&end.eps[conn.a]).0.first() {
                let wire: Vec<(u8, Vec<u8>)> = ac.items.iter().filter_map(|i| if let RItem::UserInfo(subs) = i { Some(subs.iter().map(|s| (s.ty, s.data.clone())).collect::<Vec<_>>()) } else { None }).flatten().collect();
                check!(r.user_vars == wire, "agreement", "c29:requestor-user-variables", "the requestor's user_variables() {:?} differ from the user information of the A-ASSOCIATE-AC on the wire {:?}", r.user_vars, wire);
                env.probe("requestor-user-variables");
            }
            // each side's own maximum is the configured one (documented clamp to the largest admissible value)
            let clamp = |v: u32| v.min((u32::MAX & !1) - 6);
            check!(r.local_max == clamp(cli.max_pdu), "max-pdu", "c29:requestor-local-max", "requestor configured with maximum {} holds {} as its own maximum", cli.max_pdu, r.local_max);
            check!(a.local_max == clamp(acc.max_pdu), "max-pdu", "c29:acceptor-local-max", "acceptor configured with maximum {} holds {} as its own maximum", acc.max_pdu, a.local_max);
            if cli.max_pdu > 262_138 || acc.max_pdu > 262_138 {
                env.probe("max-above-large-pdu-size");
            }
        }
    }
    // PDU limits on the wire after establishment
    for (side, ep, res, peer_adv, who) in [(0, conn.b, &r, acc.max_pdu, "requestor"), (1, conn.a, &a, cli.max_pdu, "acceptor")] {
        let _ = side;
        let limit = eff_max(peer_adv);
        let (pdus, _) = wire_pdus(&end.eps[ep]);
        let mut wire_pdata: Vec<u32> = Vec::new();
        let mut off = 0usize;
        let sent = &end.eps[ep].sent;
        for p in pdus.iter() {
            let len = u32::from_be_bytes([sent[off + 2], sent[off + 3], sent[off + 4], sent[off + 5]]);
            off += 6 + len as usize;
            if let Ok(RPdu::PData(v)) = p {
                check!(len as u64 <= limit, "pdu-limit", format!("c29:{}-pdu-over-limit", who), "{} put a P-DATA PDU of length {} on the wire, the peer admits {}", who, len, limit);
                let marker = v.iter().any(|x| x.header & 1 == 1 && x.data == vec![0xEE, 0xEE]);
                if !marker {
                    wire_pdata.push(len);
                }
            }
        }
        // scripted single sends: refused iff over the limit, and what was refused is not on the wire
        let mut expect_wire: Vec<u32> = Vec::new();
        let mut has_stream = false;
        for (len, ok, too_long) in &res.sends {
            if *len == u32::MAX {
                has_stream = true;
                env.probe("pdata-stream");
                continue;
            }
            if (*len as u64) <= limit {
                if *len as u64 == limit {
                    env.probe("send-at-limit");
                }
                check!(*ok, "pdu-limit", format!("c29:{}-fitting-send-refused", who), "{}: send of a PDU of length {} was refused although the peer admits {}", who, len, limit);
                expect_wire.push(*len);
            } else {
                env.probe("over-long-send-refused");
                check!(!*ok && *too_long, "pdu-limit", format!("c29:{}-over-long-send-accepted", who), "{}: send of a PDU of length {} (peer admits {}) returned ok={} too_long_error={}", who, len, limit, ok, too_long);
            }
        }
        if !has_stream {
            check!(wire_pdata == expect_wire, "pdu-limit", format!("c29:{}-wire-differs-from-sends", who), "{}: P-DATA lengths on the wire {:?}, accepted sends {:?}", who, wire_pdata, expect_wire);
        }
    }
    if r.established && a.established {
        // everything a side put on the wire fits the peer's maximum (checked above), so the peer receives it all
        for (ep, res, who) in [(conn.a, &r, "requestor"), (conn.b, &a, "acceptor")] {
            let (pdus, _) = wire_pdus(&end.eps[ep]);
            let n: u64 = pdus.iter().map(|p| if let Ok(RPdu::PData(v)) = p { v.iter().map(|x| x.data.len() as u64).sum() } else { 0 }).sum();
            if res.used_receive_pdata {
                env.probe("receive-pdata-on-association");
            }
            check!(res.received_bytes == n, "fitting-pdu-received", format!("c29:{}-missed-pdata", who), "{} received {} P-DATA payload bytes (receive / receive_pdata), the peer put {} on the wire in fitting PDUs", who, res.received_bytes, n);
        }
        check!(r.release_ok == Some(true), "release", "c29:release-failed", "release after a clean exchange failed");
    }
    Ok(())
}
