//! C34 — I/O failures are always reported: the writer/reader/transport fails
//! at every byte offset; the result must be `Err`, or `Ok` with complete
//! output (inspected after all values are dropped).

use crate::checks::dsio::inflate;
use crate::dsbuild::*;
use crate::framework::CheckDef;
use crate::pdugen::{gen_pdu, GenOpts};
use crate::simio::*;
use bytes::BytesMut;
use dcmref::ds::{self, GenCfg, Syntax};
use dicom_object::{FileMetaTableBuilder, InMemDicomObject, OpenFileOptions};
use dicom_parser::dataset::write::{DataSetWriterOptions, ExplicitLengthSqItemStrategy};
use dicom_ul::association::{read_pdu_from_wire, PDataReader, PDataWriter};
use dicom_ul::pdu::write_pdu;
use simcore::{check, fail, RunResult, Tape, Violation};
use std::io::{ErrorKind, Read, Write};

pub fn def() -> CheckDef {
    CheckDef {
        id: "C34",
        level: "fault_enumeration",
        configs: &["write-dataset", "write-file", "write-deflated", "read-dataset", "read-file", "pdu-write", "pdu-read", "assoc-requestor-sync", "assoc-acceptor-sync", "assoc-requestor-async", "assoc-acceptor-async", "write-to-file", "pdu-async"],
        quick_runs: 22_000,
        thorough_runs: 1_000_000,
        run,
        rule: "one run = one workload (generated data set / file / PDU or P-DATA message, API and transfer syntax from the seed) \
               executed once fault-free to record the reference output, then once per FAULT POSITION: the simulated sink or \
               source fails at byte offset k with the seed's failure kind (six io::ErrorKind values or a zero-length write; \
               failing once or persistently) - EVERY offset for outputs up to 600 bytes, otherwise 128 sampled offsets plus the \
               first and last 8 and every BufWriter/flush boundary. Oracle per position: the public operation returns Err, or \
               returns Ok AND the bytes the sink accepted (looked at after every value is dropped) equal the reference / the \
               value read equals the reference; never a panic. evaluations counts workloads; fault positions are counted \
               separately. distinct = distinct (configuration, failure kind, output-size class, segmentation signature); \
               non-trivial = at least one injected failure fired. The four assoc-* configurations do the same at association \
               level: a short conversation (establish, send, receive, release / abort / serve) between a real requestor or \
               acceptor (sync or async) and a scripted peer is run fault-free, then again with the connection lost after \
               exactly k bytes sent (or received) by the real side, for a window of 8 consecutive offsets k per run (half of \
               the windows start after the association PDU; all offsets are reached across runs); every operation must return \
               Err, or Ok with its effect complete on the wire (establish: both association PDUs exchanged; send: the PDU \
               completely accepted by the socket; receive: the peer's next PDU completely received; release: reply received). \
               write-to-file: FileDicomObject::write_to_file on a real file whose write() calls are interposed: the disk accepts \
               exactly k bytes for every (or sampled) k and then fails with ENOSPC/EIO/EDQUOT once or persistently, or EINTR \
               once, optionally after cutting the crossing write short; Err, or Ok with the stored file equal to the reference",
        real: &["InMemDicomObject::write_dataset_with_ts(_options)", "FileDicomObject::write_all / write_dataset / write_meta", "FileDicomObject::write_to_file on a real file (tmpfs sandbox) through std::fs::File and BufWriter", "deflate adapter", "read_dataset_with_ts, OpenFileOptions::from_reader, FileMetaTable::from_reader", "write_pdu, PDataWriter (write/finish), read_pdu_from_wire, PDataReader", "pdu-async: AsyncPDataWriter (write_all / finish / Drop), read_pdu_from_wire_async, PDataReader as AsyncRead, polled by the harness's manual executor", "assoc-*: Client/Server(Async)Association establish, send, receive, release, abort on real std/tokio TcpStream values"],
        stub: &["failing sink/source (SimSink/SimSource with Fault)", "write-to-file: the disk, as the interposed libc write(): accepts exactly k bytes, optionally cuts the crossing write short, then fails with ENOSPC / EIO / EDQUOT (once or persistently) or EINTR (once)", "reference = the same operation on a healthy seam", "assoc-*: simulated TCP with a deterministic loss-of-connection offset; scripted peer"],
        assumptions: &["Interrupted and UnexpectedEof are not used as the injected failure (the first must be retried by contract, the second is dicom-rs' documented graceful end of data)", "association level: the failure is loss of the connection (ECONNRESET/EPIPE) at a byte offset; other errno values are injected by C30's random faults"],
        required_probes: &["fault-positions-exhaustive", "fault-positions-sampled", "ok-with-complete-output", "err-reported", "fault-in-drop-window", "assoc-cut-sent-offset", "assoc-cut-received-offset", "assoc-established-under-cut", "assoc-establish-failed-under-cut", "assoc-complete-despite-cut", "assoc-error-reported", "disk-fault-position", "disk-eintr-retried"],
        net: false,
    }
}

fn harness(e: impl std::fmt::Display) -> Violation {
    Violation::new("harness", "HARNESS-PANIC@c34", format!("{}", e))
}

fn gen_fault_kind(w: &mut Tape) -> (FaultKind, bool, &'static str) {
    let persistent = w.chance(1, 2);
    match w.below(7) {
        0 => (FaultKind::Zero, persistent, "zero"),
        1 => (FaultKind::Err(ErrorKind::BrokenPipe), persistent, "BrokenPipe"),
        2 => (FaultKind::Err(ErrorKind::ConnectionReset), persistent, "ConnectionReset"),
        3 => (FaultKind::Err(ErrorKind::TimedOut), persistent, "TimedOut"),
        4 => (FaultKind::Err(ErrorKind::WouldBlock), persistent, "WouldBlock"),
        5 => (FaultKind::Err(ErrorKind::StorageFull), persistent, "StorageFull"),
        _ => (FaultKind::Err(ErrorKind::Other), persistent, "Other"),
    }
}

fn positions(w: &mut Tape, env: &EnvRef, len: usize) -> Vec<usize> {
    if len <= 600 {
        env.probe("fault-positions-exhaustive");
        (0..len).collect()
    } else {
        env.probe("fault-positions-sampled");
        let mut v: Vec<usize> = (0..8).collect();
        v.extend(len - 8..len);
        for b in [8192usize, 8191, 8193, 16384, 132, 128] {
            if b < len {
                v.push(b);
            }
        }
        for _ in 0..128 {
            v.push(w.below(len as u32) as usize);
        }
        v.sort();
        v.dedup();
        v
    }
}

fn small_model(w: &mut Tape, syn: Syntax) -> Vec<ds::Elem> {
    let big = w.chance(1, 6);
    let gcfg = GenCfg {
        max_depth: if big { 3 } else { 2 },
        private: false,
        pixel: big,
        encapsulated: syn == Syntax::ExplicitLE,
        all_undefined: false,
        latin1: false,
        utf8: false,
        other_cs: 0,
        nested_charset: false,
    };
    let mut m = model_items_undef(&restrict_to(&ds::gen_dataset(w, &gcfg), syn));
    if !big {
        m.truncate(5);
    } else if w.chance(1, 2) {
        // a large native pixel data value so that BufWriter spills happen
        m.retain(|e| e.tag != ds::PIXEL_DATA);
        m.push(ds::Elem {
            tag: ds::PIXEL_DATA,
            vr: *b"OB",
            val: ds::Val::Prim(ds::Prim::Bytes(simcore::pattern_bytes(1, 9000 + w.below(9000) as usize))),
        });
    }
    m
}

/// Run `op` against a healthy sink, then against a sink failing at every
/// position. `op` returns Ok/Err of the public operation; everything it
/// created must be dropped when it returns.
fn enumerate_write_faults(
    w: &mut Tape,
    env: &EnvRef,
    who: &str,
    mut op: impl FnMut(&mut SimSink) -> Result<(), String>,
    post: impl Fn(&[u8]) -> Result<Vec<u8>, String>,
) -> RunResult {
    let mut healthy = SimSink::new(env, SinkCfg::default());
    if let Err(e) = op(&mut healthy) {
        fail!("healthy-write-succeeds", format!("c34:{}:healthy-failed", who), "the operation failed on a healthy writer: {}", e);
    }
    let reference = healthy.data.clone();
    let _ref_post = post(&reference).map_err(|e| Violation::new("healthy-write-succeeds", format!("c34:{}:healthy-invalid", who), e))?;
    // the writer's flush fails while every write is accepted: an operation that flushed the writer was told
    // about a failure and must pass it on, whatever the sink holds
    {
        let mut sink = SimSink::new(
            env,
            SinkCfg {
                flush_fault: Some(ErrorKind::Other),
                ..Default::default()
            },
        );
        let r = op(&mut sink);
        if sink.flushes > 0 {
            env.probe("flush-failure-injected");
            check!(
                r.is_err(),
                "failure-reported",
                format!("c34:{}:flush-failure-swallowed", who),
                "the writer's flush() failed ({} call(s)) but the operation returned Ok [{}]",
                sink.flushes,
                who
            );
        }
    }
    let (kind, persistent, kname) = gen_fault_kind(w);
    let pos = positions(w, env, reference.len());
    env.ev("workload", reference.len() as u64, pos.len() as u64);
    for k in pos {
        let mut sink = SimSink::new(
            env,
            SinkCfg {
                fault: Some(Fault { at: k, kind, persistent }),
                ..Default::default()
            },
        );
        let r = op(&mut sink);
        env.probe("fault-position");
        match r {
            Err(_) => {
                env.probe("err-reported");
            }
            Ok(()) => {
                // success claimed: the output must be complete
                let complete = sink.data == reference;
                if !sink.fault_fired {
                    // the operation never reached offset k (should not happen: same workload)
                    check!(complete, "failure-reported", format!("c34:{}:short-without-fault", who), "Ok with {} of {} bytes although no failure was injected", sink.data.len(), reference.len());
                    continue;
                }
                if complete {
                    env.probe("ok-with-complete-output");
                    continue;
                }
                let tail = reference.len() - k;
                if tail <= 8192 {
                    env.probe("fault-in-drop-window");
                }
                // the deflate stream's 2-byte final block is emitted when the encoder is dropped
                let class = if who.ends_with(":deflated") && who.starts_with("write_all") && tail <= 2 {
                    format!("c34:{}:final-deflate-block-lost-in-drop", who)
                } else {
                    format!("c34:{}:ok-with-incomplete-output", who)
                };
                fail!(
                    "failure-reported",
                    class,
                    "the writer failed ({}, {}) at byte offset {} of {} but the operation returned Ok; the sink holds {} bytes [{}]",
                    kname,
                    if persistent { "persistently" } else { "once" },
                    k,
                    reference.len(),
                    sink.data.len(),
                    who
                );
            }
        }
    }
    Ok(())
}

fn run_write_dataset(w: &mut Tape, env: &EnvRef) -> RunResult {
    let syn = [Syntax::ImplicitLE, Syntax::ExplicitLE, Syntax::ExplicitBE][w.below(3) as usize];
    let model = small_model(w, syn);
    let obj = build_object(&model, syn);
    let ts = ts_of(syn);
    let nochange = w.chance(1, 2);
    let who = format!("write_dataset_with_ts:{}", syn.name());
    enumerate_write_faults(
        w,
        env,
        &who,
        |sink| {
            let opts = DataSetWriterOptions::default().explicit_length_sq_item_strategy(if nochange {
                ExplicitLengthSqItemStrategy::NoChange
            } else {
                ExplicitLengthSqItemStrategy::SetUndefined
            });
            obj.write_dataset_with_ts_options(sink, &ts, opts).map_err(|e| format!("{}", e))
        },
        |b| Ok(b.to_vec()),
    )
}

fn run_write_file(w: &mut Tape, env: &EnvRef) -> RunResult {
    let syn = [Syntax::ImplicitLE, Syntax::ExplicitLE, Syntax::ExplicitBE][w.below(3) as usize];
    let model = small_model(w, syn);
    let obj = build_object(&model, syn);
    let meta = FileMetaTableBuilder::new()
        .media_storage_sop_class_uid("1.2.840.10008.5.1.4.1.1.7")
        .media_storage_sop_instance_uid("1.2.3.4.5")
        .transfer_syntax(syn.uid())
        .build()
        .map_err(harness)?;
    let file = obj.with_exact_meta(meta);
    let api = w.below(3);
    let who = format!("{}:{}", ["write_all", "write_dataset", "write_meta"][api as usize], syn.name());
    enumerate_write_faults(
        w,
        env,
        &who,
        |sink| match api {
            0 => file.write_all(sink).map_err(|e| format!("{}", e)),
            1 => file.write_dataset(sink).map_err(|e| format!("{}", e)),
            _ => file.write_meta(sink).map_err(|e| format!("{}", e)),
        },
        |b| Ok(b.to_vec()),
    )
}

fn run_write_deflated(w: &mut Tape, env: &EnvRef) -> RunResult {
    let model = small_model(w, Syntax::ExplicitLE);
    let obj = build_object(&model, Syntax::ExplicitLE);
    let ts = ts_deflated();
    let api = w.below(2);
    let meta = FileMetaTableBuilder::new()
        .media_storage_sop_class_uid("1.2.840.10008.5.1.4.1.1.7")
        .media_storage_sop_instance_uid("1.2.3.4.5")
        .transfer_syntax("1.2.840.10008.1.2.1.99")
        .build()
        .map_err(harness)?;
    let file = obj.clone().with_exact_meta(meta);
    let who = format!("{}:deflated", ["write_dataset_with_ts", "write_all"][api as usize]);
    enumerate_write_faults(
        w,
        env,
        &who,
        |sink| match api {
            0 => obj.write_dataset_with_ts(sink, &ts).map_err(|e| format!("{}", e)),
            _ => file.write_all(sink).map_err(|e| format!("{}", e)),
        },
        move |b| {
            // compare what the stream inflates to (a truncated deflate stream fails to inflate completely)
            if api == 0 {
                inflate(b)
            } else {
                let (_m, off) = ds::parse_file_meta_opts(b, false)?;
                inflate(&b[off..])
            }
        },
    )
}

fn enumerate_read_faults<T>(
    w: &mut Tape,
    env: &EnvRef,
    who: &str,
    bytes: &[u8],
    mut op: impl FnMut(SimSource) -> Result<T, String>,
    same: impl Fn(&T, &T) -> bool,
) -> RunResult {
    let reference = match op(SimSource::new(bytes.to_vec(), env, SrcCfg::default())) {
        Ok(r) => r,
        Err(e) => fail!("healthy-read-succeeds", format!("c34:{}:healthy-failed", who), "reading from a healthy source failed: {}", e),
    };
    let (kind, persistent, kname) = gen_fault_kind(w);
    // a source has no zero-length write; Zero here is a premature end of stream, which dicom-rs documents
    // as a graceful end of data set: not an injected failure
    let kind = if let FaultKind::Zero = kind { FaultKind::Err(ErrorKind::Other) } else { kind };
    let pos = positions(w, env, bytes.len());
    env.ev("workload", bytes.len() as u64, pos.len() as u64);
    for k in pos {
        let src = SimSource::new(
            bytes.to_vec(),
            env,
            SrcCfg {
                fault: Some(Fault { at: k, kind, persistent }),
                ..Default::default()
            },
        );
        let fired = src.handed_shared.clone();
        env.probe("fault-position");
        match op(src) {
            Err(_) => env.probe("err-reported"),
            Ok(v) => {
                if same(&v, &reference) {
                    env.probe("ok-with-complete-output");
                } else {
                    let _ = fired;
                    fail!(
                        "failure-reported",
                        format!("c34:{}:ok-with-different-value", who),
                        "the reader failed ({}, {}) at byte offset {} of {} but the operation returned Ok with a value that differs from the fault-free result [{}]",
                        kname,
                        if persistent { "persistently" } else { "once" },
                        k,
                        bytes.len(),
                        who
                    );
                }
            }
        }
    }
    Ok(())
}

fn run_read_dataset(w: &mut Tape, env: &EnvRef) -> RunResult {
    let syn = [Syntax::ImplicitLE, Syntax::ExplicitLE, Syntax::ExplicitBE][w.below(3) as usize];
    let model = small_model(w, syn);
    let (bytes, _) = ds::encode(&model, syn, None).map_err(harness)?;
    let ts = ts_of(syn);
    enumerate_read_faults(
        w,
        env,
        &format!("read_dataset_with_ts:{}", syn.name()),
        &bytes,
        |src| InMemDicomObject::read_dataset_with_ts(src, &ts).map_err(|e| format!("{}", e)),
        |a, b| obj_diff(a, b, "").is_none(),
    )
}

fn run_read_file(w: &mut Tape, env: &EnvRef) -> RunResult {
    let syn = [Syntax::ImplicitLE, Syntax::ExplicitLE, Syntax::ExplicitBE][w.below(3) as usize];
    let model = small_model(w, syn);
    let (dataset, _) = ds::encode(&model, syn, None).map_err(harness)?;
    let meta = ds::MetaSpec {
        media_sop_class: b"1.2.840.10008.5.1.4.1.1.7".to_vec(),
        media_sop_instance: b"1.2.3.4.5".to_vec(),
        transfer_syntax: syn.uid().as_bytes().to_vec(),
        impl_class_uid: b"1.2.3.999".to_vec(),
        impl_version: None,
        source_ae: None,
    };
    let file = ds::encode_file(&meta, &dataset, w.chance(3, 4));
    let api = w.below(2);
    if api == 0 {
        enumerate_read_faults(
            w,
            env,
            &format!("from_reader:{}", syn.name()),
            &file,
            |src| OpenFileOptions::new().from_reader(src).map_err(|e| format!("{}", e)),
            |a, b| a.meta() == b.meta() && obj_diff(a, b, "").is_none(),
        )
    } else {
        let start = if file.len() > 132 && &file[128..132] == b"DICM" { 128 } else { 0 };
        enumerate_read_faults(
            w,
            env,
            "FileMetaTable::from_reader",
            &file[start..],
            |src| dicom_object::FileMetaTable::from_reader(src).map_err(|e| format!("{}", e)),
            |a, b| a == b,
        )
    }
}

fn run_pdu_write(w: &mut Tape, env: &EnvRef) -> RunResult {
    if w.chance(1, 2) {
        let p = gen_pdu(
            w,
            &GenOpts {
                big: false,
                max_pdata: 700,
                unknown: true,
            },
        );
        enumerate_write_faults(w, env, "write_pdu", |sink| write_pdu(sink, &p).map_err(|e| format!("{}", e)), |b| Ok(b.to_vec()))
    } else {
        let max = 1018 + w.below(200);
        let n = w.below(2600) as usize;
        let payload = simcore::pattern_bytes(1, n);
        let chunk = 1 + w.below(1200) as usize;
        enumerate_write_faults(
            w,
            env,
            "PDataWriter",
            |sink| {
                let mut wr = PDataWriter::new_for_verif(sink, 1, max);
                for c in payload.chunks(chunk) {
                    wr.write_all(c).map_err(|e| format!("{}", e))?;
                }
                wr.finish().map_err(|e| format!("{}", e))
            },
            |b| Ok(b.to_vec()),
        )
    }
}

fn run_pdu_read(w: &mut Tape, env: &EnvRef) -> RunResult {
    if w.chance(1, 2) {
        // a sequence of PDUs received one by one
        let n = 1 + w.below(3);
        let mut pdus = Vec::new();
        let mut bytes = Vec::new();
        for _ in 0..n {
            let p = gen_pdu(
                w,
                &GenOpts {
                    big: false,
                    max_pdata: 300,
                    unknown: true,
                },
            );
            if write_pdu(&mut bytes, &p).is_ok() {
                pdus.push(p);
            }
        }
        let count = pdus.len();
        enumerate_read_faults(
            w,
            env,
            "read_pdu_from_wire",
            &bytes,
            |mut src| {
                let mut rb = BytesMut::new();
                let mut out = Vec::new();
                for _ in 0..count {
                    out.push(read_pdu_from_wire(&mut src, &mut rb, 70_000, false).map_err(|e| format!("{}", e))?);
                }
                Ok(out)
            },
            |a, b| a == b,
        )
    } else {
        let max = 1018 + w.below(200);
        let n = w.below(2600) as usize;
        let payload = simcore::pattern_bytes(1, n);
        let mut stream = Vec::new();
        {
            let mut wr = PDataWriter::new_for_verif(&mut stream, 3, max);
            wr.write_all(&payload).map_err(harness)?;
            wr.finish().map_err(harness)?;
        }
        enumerate_read_faults(
            w,
            env,
            "PDataReader",
            &stream,
            |mut src| {
                let mut rb = BytesMut::new();
                let mut got = Vec::new();
                let mut rd = PDataReader::new(&mut src, max, &mut rb);
                Read::read_to_end(&mut rd, &mut got).map_err(|e| format!("{}", e))?;
                Ok(got)
            },
            |a, b| a == b,
        )
    }
}

fn run(cfg: usize, w: &mut Tape, env: &EnvRef) -> RunResult {
    match cfg {
        0 => run_write_dataset(w, env),
        1 => run_write_file(w, env),
        2 => run_write_deflated(w, env),
        3 => run_read_dataset(w, env),
        4 => run_read_file(w, env),
        5 => run_pdu_write(w, env),
        6 => run_pdu_read(w, env),
        11 => run_write_to_file(w, env),
        12 => run_pdu_async(w, env),
        n => crate::checks::c30::run_assoc_faults(n - 7, w, env),
    }
}

/// The asynchronous twins of the PDU paths (AsyncPDataWriter, read_pdu_from_wire_async, the AsyncRead side of
/// PDataReader) driven by the manual poller over a failing AsyncWrite / AsyncRead seam.
fn run_pdu_async(w: &mut Tape, env: &EnvRef) -> RunResult {
    use dicom_ul::association::{read_pdu_from_wire_async, AsyncPDataWriter};
    use std::pin::pin;
    use tokio::io::{AsyncReadExt, AsyncWriteExt};
    let _g = crate::checks::c26::rt_handle().enter();
    let flat = |r: Result<std::io::Result<()>, DriveError>| -> Result<(), String> {
        match r {
            Ok(Ok(())) => Ok(()),
            Ok(Err(e)) => Err(format!("{}", e)),
            // a future that stops making progress is no success either (progress itself is C26's subject)
            Err(_) => Err("future did not complete".into()),
        }
    };
    match w.below(3) {
        0 => {
            let max = 1018 + w.below(200);
            let n = w.below(2600) as usize;
            let payload = simcore::pattern_bytes(1, n);
            let chunk = 1 + w.below(1200) as usize;
            enumerate_write_faults(
                w,
                env,
                "AsyncPDataWriter",
                |sink| {
                    // the writer's Drop blocks on the transport: Pending must then complete at once
                    crate::simio::set_immediate_wake(env, true);
                    let mut wr = AsyncPDataWriter::new_for_verif(sink, 1, max);
                    for c in payload.chunks(chunk) {
                        let r = {
                            let fut = pin!(wr.write_all(c));
                            drive(env, fut, 100_000)
                        };
                        flat(r)?;
                    }
                    // (a writer that is merely dropped reports nothing, so no success is claimed for it: finish it)
                    let r = {
                        let fut = pin!(wr.finish());
                        drive(env, fut, 100_000)
                    };
                    flat(r)
                },
                |b| Ok(b.to_vec()),
            )
        }
        1 => {
            let n = 1 + w.below(3);
            let mut pdus = Vec::new();
            let mut bytes = Vec::new();
            for _ in 0..n {
                let p = gen_pdu(w, &GenOpts { big: false, max_pdata: 300, unknown: true });
                if write_pdu(&mut bytes, &p).is_ok() {
                    pdus.push(p);
                }
            }
            let count = pdus.len();
            enumerate_read_faults(
                w,
                env,
                "read_pdu_from_wire_async",
                &bytes,
                |mut src| {
                    let mut rb = BytesMut::new();
                    let mut out = Vec::new();
                    for _ in 0..count {
                        let r = {
                            let fut = pin!(read_pdu_from_wire_async(&mut src, &mut rb, 70_000, false));
                            drive(env, fut, 100_000)
                        };
                        match r {
                            Ok(Ok(p)) => out.push(p),
                            Ok(Err(e)) => return Err(format!("{}", e)),
                            Err(_) => return Err("future did not complete".into()),
                        }
                    }
                    Ok(out)
                },
                |a, b| a == b,
            )
        }
        _ => {
            let max = 1018 + w.below(200);
            let n = w.below(2600) as usize;
            let payload = simcore::pattern_bytes(1, n);
            let mut stream = Vec::new();
            {
                let mut wr = PDataWriter::new_for_verif(&mut stream, 3, max);
                wr.write_all(&payload).map_err(harness)?;
                wr.finish().map_err(harness)?;
            }
            enumerate_read_faults(
                w,
                env,
                "PDataReader(async)",
                &stream,
                |mut src| {
                    let mut rb = BytesMut::new();
                    let mut got = Vec::new();
                    let mut rd = PDataReader::new(&mut src, max, &mut rb);
                    let r = {
                        let fut = pin!(AsyncReadExt::read_to_end(&mut rd, &mut got));
                        drive(env, fut, 100_000)
                    };
                    match r {
                        Ok(Ok(_)) => Ok(got),
                        Ok(Err(e)) => Err(format!("{}", e)),
                        Err(_) => Err("future did not complete".into()),
                    }
                },
                |a, b| a == b,
            )
        }
    }
}

/// Path-based writer under disk faults (engine: the libc `write` seam of simdisk): the file system accepts
/// exactly k bytes and then fails (or cuts the crossing write short first), for every k.
fn run_write_to_file(w: &mut Tape, env: &EnvRef) -> RunResult {
    use crate::simdisk::{self, Plan};
    let syn = [Syntax::ImplicitLE, Syntax::ExplicitLE, Syntax::ExplicitBE][w.below(3) as usize];
    let model = small_model(w, syn);
    let obj = build_object(&model, syn);
    let meta = FileMetaTableBuilder::new()
        .media_storage_sop_class_uid("1.2.840.10008.5.1.4.1.1.7")
        .media_storage_sop_instance_uid("1.2.3.4.5")
        .transfer_syntax(syn.uid())
        .build()
        .map_err(harness)?;
    let file = obj.with_exact_meta(meta);
    let who = format!("write_to_file:{}", syn.name());
    let dir = crate::framework::sandbox_dir().join("c34files");
    std::fs::create_dir_all(&dir).map_err(harness)?;
    let path = dir.join("out.dcm");
    let _ = std::fs::remove_file(&path);
    if let Err(e) = file.write_to_file(&path) {
        fail!("healthy-write-succeeds", format!("c34:{}:healthy-failed", who), "write_to_file failed on a healthy disk: {}", e);
    }
    let reference = std::fs::read(&path).map_err(harness)?;
    // the same bytes as the Write-based twin
    let mut twin = Vec::new();
    file.write_all(&mut twin).map_err(harness)?;
    check!(twin == reference, "healthy-write-succeeds", format!("c34:{}:differs-from-write_all", who), "write_to_file stored {} bytes, write_all produces {}", reference.len(), twin.len());
    let (errno, ename) = [(libc::ENOSPC, "ENOSPC"), (libc::EIO, "EIO"), (libc::EDQUOT, "EDQUOT"), (libc::EINTR, "EINTR")][w.below(4) as usize];
    let short = w.chance(1, 2);
    // EINTR is transient by nature
    let persistent = errno != libc::EINTR && w.chance(1, 2);
    let pos = positions(w, env, reference.len());
    env.ev("workload", reference.len() as u64, pos.len() as u64);
    for k in pos {
        let _ = std::fs::remove_file(&path);
        simdisk::arm(Plan { fail_at: k as u64, errno, short, persistent });
        let r = file.write_to_file(&path);
        let rep = simdisk::disarm();
        env.probe("fault-position");
        env.probe("disk-fault-position");
        if rep.fired > 0 {
            env.with(|e| e.obs.fault(ename));
        }
        if rep.short_writes > 0 {
            env.with(|e| e.obs.fault("short-disk-write"));
        }
        match r {
            Err(_) => env.probe("err-reported"),
            Ok(()) => {
                let stored = std::fs::read(&path).unwrap_or_default();
                if stored == reference {
                    env.probe("ok-with-complete-output");
                    if errno == libc::EINTR && rep.fired > 0 {
                        env.probe("disk-eintr-retried");
                    }
                    continue;
                }
                check!(rep.fired > 0 || rep.short_writes > 0, "failure-reported", format!("c34:{}:short-without-fault", who), "Ok with {} of {} bytes stored although no disk failure was injected", stored.len(), reference.len());
                if reference.len() - k <= 8192 {
                    env.probe("fault-in-drop-window");
                }
                fail!(
                    "failure-reported",
                    format!("c34:{}:ok-with-incomplete-output", who),
                    "the disk failed ({}, {}{}) after accepting {} of {} bytes but write_to_file returned Ok; the file holds {} bytes [{}]",
                    ename,
                    if persistent { "persistently" } else { "once" },
                    if short { ", crossing write cut short" } else { "" },
                    k,
                    reference.len(),
                    stored.len(),
                    who
                );
            }
        }
    }
    let _ = std::fs::remove_file(&path);
    Ok(())
}
