//! C26 — P-DATA fragmentation and reassembly under any schedule.

use crate::framework::CheckDef;
use crate::simio::*;
use bytes::BytesMut;
use dcmref::pdu::{self as rp, RPdu, RPdv};
use dicom_ul::association::{read_pdu_from_wire, read_pdu_from_wire_async, AsyncPDataWriter, PDataReader, PDataWriter};
use simcore::{check, fail, pattern_bytes, RunResult, Tape};
use std::io::{Read, Write};
use std::pin::pin;
use tokio::io::{AsyncReadExt, AsyncWriteExt};

pub fn def() -> CheckDef {
    CheckDef {
        id: "C26",
        level: "exploration",
        configs: &["writer-sync", "writer-async", "reader-sync", "reader-async"],
        quick_runs: 400_000,
        thorough_runs: 8_000_000,
        run,
        rule: "one run = one (max PDU length, payload, write-chunk sequence) drawn from the workload tape, executed by the real \
               PDataWriter / AsyncPDataWriter over a simulated sink (tape-chosen short writes, EINTR, Pending with later or \
               spurious wake) or by the real PDataReader over a simulated source (tape-chosen segmentation, 1-byte reads, \
               Pending) with 0-2 further PDUs behind the message. distinct = distinct hashed sequences of environment event \
               kinds with log2 size classes; non-trivial = at least one non-default environment decision (short transfer, \
               EINTR, Pending) actually fired in the run",
        real: &["dicom_ul PDataWriter", "dicom_ul AsyncPDataWriter (poll_write state machine, finish, Drop)", "dicom_ul PDataReader (Read and AsyncRead)", "dicom_ul read_pdu_from_wire(_async)", "tokio AsyncWriteExt/AsyncReadExt adapters"],
        stub: &["transport (SimSink/SimSource)", "executor (manual poller; a multi-thread tokio runtime is only entered so Drop finds a handle)", "framing oracle (independent PS3.8 parser)"],
        assumptions: &["reader inputs are streams a conforming P-DATA writer produces: one PDV per PDU, non-final fragments non-empty", "async sink never reports Interrupted"],
        required_probes: &["payload-multiple-of-cap", "chunk-crosses-pdu-boundary", "pending-while-writing", "trailing-pdu-coalesced", "write-returned-short"],
        net: false,
    }
}

pub struct Workload {
    pub max_pdu: u32,
    pub ctx: u8,
    pub payload: Vec<u8>,
    /// (size, use write_all?)
    pub chunks: Vec<(usize, bool)>,
    pub explicit_finish: bool,
}

pub fn gen_max_pdu(w: &mut Tape) -> u32 {
    match w.weighted(&[4, 1, 1, 1, 1, 1, 2]) {
        0 => 1018,
        1 => 1019,
        2 => 1020,
        3 => 1024,
        4 => 16384,
        5 => 32762,
        _ => 1018 + w.below(70000 - 1018),
    }
}

pub fn gen_workload(w: &mut Tape) -> Workload {
    let max_pdu = gen_max_pdu(w);
    let cap = max_pdu - 6;
    let ctx = (w.below(128) * 2 + 1) as u8;
    let len = match w.weighted(&[3, 4, 2, 2]) {
        0 => w.below(16),
        1 => {
            let k = 1 + w.below(3);
            let d = w.below(5) as i64 - 2;
            ((k * cap) as i64 + d).max(0) as u32
        }
        2 => w.below(cap * 2 + 2),
        _ => w.below((4 * max_pdu).min(160_000) + 1),
    };
    let payload = pattern_bytes(w.below(3), len as usize);
    let mut chunks = Vec::new();
    let mut left = len as usize;
    let style = w.below(6);
    while left > 0 {
        let c = match style {
            0 => left,
            1 => cap as usize,
            2 => 1 + w.below(8) as usize,
            3 => match w.below(5) {
                0 => 1,
                1 => cap as usize - 1,
                2 => cap as usize,
                3 => cap as usize + 1,
                _ => 1 + w.below(2 * cap) as usize,
            },
            4 => 8192,
            _ => 1 + w.below(left as u32) as usize,
        };
        let c = c.min(left).max(1);
        chunks.push((c, w.chance(1, 2)));
        left -= c;
        if chunks.len() > 4000 {
            chunks.push((left, true));
            break;
        }
    }
    Workload {
        max_pdu,
        ctx,
        payload,
        chunks,
        explicit_finish: w.chance(3, 4),
    }
}

/// The framing oracle for the writer's output.
pub fn check_writer_output(bytes: &[u8], wl: &Workload, who: &str) -> RunResult {
    let pdus = match rp::parse_stream(bytes) {
        Ok(p) => p,
        Err(e) => fail!("pdata-writer-framing", format!("{}:bad-framing", who), "{}: output does not frame as PDUs: {}", who, e),
    };
    check!(!pdus.is_empty(), "pdata-writer-framing", format!("{}:no-pdu", who), "{}: no PDU emitted for a {}-byte payload", who, wl.payload.len());
    let mut cat = Vec::new();
    let n = pdus.len();
    let mut pos = 0usize;
    for (i, p) in pdus.iter().enumerate() {
        let pdvs = match p {
            RPdu::PData(v) => v,
            other => fail!("pdata-writer-framing", format!("{}:not-pdata", who), "{}: PDU {} is {} not P-DATA-TF", who, i, other.kind()),
        };
        let len = u32::from_be_bytes([bytes[pos + 2], bytes[pos + 3], bytes[pos + 4], bytes[pos + 5]]);
        pos += 6 + len as usize;
        check!(len <= wl.max_pdu, "pdata-writer-maxlen", format!("{}:pdu-too-long", who), "{}: PDU {} has PDU-length {} > maximum {}", who, i, len, wl.max_pdu);
        check!(pdvs.len() == 1, "pdata-writer-framing", format!("{}:pdv-count", who), "{}: PDU {} carries {} PDVs", who, i, pdvs.len());
        let v: &RPdv = &pdvs[0];
        check!(v.ctx == wl.ctx, "pdata-writer-framing", format!("{}:ctx", who), "{}: PDU {} context {} != {}", who, i, v.ctx, wl.ctx);
        check!(v.header & 1 == 0, "pdata-writer-framing", format!("{}:command-bit", who), "{}: PDU {} has the command bit set", who, i);
        let last = v.header & 2 != 0;
        check!(last == (i + 1 == n), "pdata-writer-last", format!("{}:last-flag", who), "{}: PDU {} of {} has last={}", who, i, n, last);
        cat.extend_from_slice(&v.data);
    }
    check!(
        cat == wl.payload,
        "pdata-writer-payload",
        format!("{}:payload-differs", who),
        "{}: concatenated payload ({} bytes) differs from input ({} bytes)",
        who,
        cat.len(),
        wl.payload.len()
    );
    Ok(())
}

fn io_class(e: &std::io::Error) -> String {
    format!("{:?}", e.kind())
}

fn run_writer_sync(w: &mut Tape, env: &EnvRef) -> RunResult {
    let wl = gen_workload(w);
    let cap = (wl.max_pdu - 6) as usize;
    if !wl.payload.is_empty() && wl.payload.len() % cap == 0 {
        env.probe("payload-multiple-of-cap");
    }
    let mut sink = SimSink::new(
        env,
        SinkCfg {
            short: true,
            interrupted: true,
            ..Default::default()
        },
    );
    {
        let mut wr = PDataWriter::new_for_verif(&mut sink, wl.ctx, wl.max_pdu);
        let mut off = 0usize;
        let mut in_buf = 0usize;
        for (c, all) in &wl.chunks {
            let chunk = &wl.payload[off..off + c];
            if in_buf % cap != 0 && in_buf % cap + c > cap || *c > cap {
                env.probe("chunk-crosses-pdu-boundary");
            }
            if *all {
                if let Err(e) = wr.write_all(chunk) {
                    fail!("pdata-writer-no-error", format!("writer-sync:write_all-err:{}", io_class(&e)), "write_all({} bytes at offset {}) failed on a healthy transport: {}", c, off, e);
                }
            } else {
                // honour the return value of write
                let mut done = 0;
                let mut guard = 0;
                while done < chunk.len() {
                    match wr.write(&chunk[done..]) {
                        Ok(0) => fail!("pdata-writer-no-error", "writer-sync:write-returned-0", "write({} bytes at offset {}) returned Ok(0) on a healthy transport (max_pdu {})", chunk.len() - done, off + done, wl.max_pdu),
                        Ok(n) => {
                            if n < chunk.len() - done {
                                env.probe("write-returned-short");
                            }
                            done += n
                        }
                        Err(e) => fail!("pdata-writer-no-error", format!("writer-sync:write-err:{}", io_class(&e)), "write failed on a healthy transport: {}", e),
                    }
                    guard += 1;
                    check!(guard < 100_000, "pdata-writer-progress", "writer-sync:no-progress", "write makes no progress");
                }
            }
            off += c;
            in_buf += c;
        }
        if wl.explicit_finish {
            if let Err(e) = wr.finish() {
                fail!("pdata-writer-no-error", format!("writer-sync:finish-err:{}", io_class(&e)), "finish failed on a healthy transport: {}", e);
            }
        }
    }
    // inspected only after the writer is gone (bytes emitted in Drop count)
    check_writer_output(&sink.data, &wl, "writer-sync")
}

pub(crate) fn rt_handle() -> &'static tokio::runtime::Runtime {
    use std::sync::OnceLock;
    static RT: OnceLock<tokio::runtime::Runtime> = OnceLock::new();
    RT.get_or_init(|| {
        tokio::runtime::Builder::new_multi_thread()
            .worker_threads(1)
            .build()
            .expect("runtime")
    })
}

fn drive_err(who: &str, what: &str, e: DriveError) -> simcore::Violation {
    match e {
        DriveError::LostWakeup { polls } => simcore::Violation::new(
            "async-no-lost-wakeup",
            format!("{}:{}:lost-wakeup", who, what),
            format!("{} returned Pending after {} polls without any registered waker: it would sleep forever", what, polls),
        ),
        DriveError::Budget { polls } => simcore::Violation::new(
            "async-progress",
            format!("{}:{}:poll-budget", who, what),
            format!("{} still Pending after {} polls", what, polls),
        ),
    }
}

struct NoPendingOnDrop(EnvRef);
impl Drop for NoPendingOnDrop {
    fn drop(&mut self) {
        crate::simio::set_immediate_wake(&self.0, true);
    }
}

fn run_writer_async(w: &mut Tape, env: &EnvRef) -> RunResult {
    let wl = gen_workload(w);
    let cap = (wl.max_pdu - 6) as usize;
    if !wl.payload.is_empty() && wl.payload.len() % cap == 0 {
        env.probe("payload-multiple-of-cap");
    }
    // reference: the sync writer over a plain Vec with the same chunking
    let _g = rt_handle().enter();
    let mut sink = SimSink::new(
        env,
        SinkCfg {
            short: true,
            pending: true,
            ..Default::default()
        },
    );
    {
        let mut wr = AsyncPDataWriter::new_for_verif(&mut sink, wl.ctx, wl.max_pdu);
        // declared after `wr`, hence dropped before it on every exit path:
        // Drop of the writer blocks on the transport, which must then complete
        // without a later event
        let _np = NoPendingOnDrop(env.clone());
        let mut off = 0usize;
        for (c, all) in &wl.chunks {
            let chunk = &wl.payload[off..off + c];
            if *all {
                let before = env.with(|e| e.obs.faults.get("write-pending").cloned().unwrap_or(0));
                let r = {
                    let fut = pin!(wr.write_all(chunk));
                    drive(env, fut, 1_000_000)
                };
                let after = env.with(|e| e.obs.faults.get("write-pending").cloned().unwrap_or(0));
                if after >= before + 2 {
                    env.probe("pending-while-writing");
                }
                match r {
                    Ok(Ok(())) => {}
                    Ok(Err(e)) => fail!("pdata-writer-no-error", format!("writer-async:write_all-err:{}", io_class(&e)), "async write_all({} bytes at offset {}, max_pdu {}) failed on a healthy transport: {}", c, off, wl.max_pdu, e),
                    Err(e) => return Err(drive_err("writer-async", "write_all", e)),
                }
            } else {
                let mut done = 0;
                let mut guard = 0;
                while done < chunk.len() {
                    let r = {
                        let fut = pin!(wr.write(&chunk[done..]));
                        drive(env, fut, 1_000_000)
                    };
                    match r {
                        Ok(Ok(0)) => fail!("pdata-writer-no-error", "writer-async:write-returned-0", "async write({} bytes at offset {}) returned Ok(0) on a healthy transport (max_pdu {})", chunk.len() - done, off + done, wl.max_pdu),
                        Ok(Ok(n)) => {
                            if n < chunk.len() - done {
                                env.probe("write-returned-short");
                            }
                            done += n
                        }
                        Ok(Err(e)) => fail!("pdata-writer-no-error", format!("writer-async:write-err:{}", io_class(&e)), "async write failed on a healthy transport: {}", e),
                        Err(e) => return Err(drive_err("writer-async", "write", e)),
                    }
                    guard += 1;
                    check!(guard < 100_000, "pdata-writer-progress", "writer-async:no-progress", "write makes no progress");
                }
            }
            off += c;
        }
        if wl.explicit_finish {
            let r = {
                let fut = pin!(wr.finish());
                drive(env, fut, 1_000_000)
            };
            match r {
                Ok(Ok(())) => {}
                Ok(Err(e)) => fail!("pdata-writer-no-error", format!("writer-async:finish-err:{}", io_class(&e)), "async finish failed on a healthy transport: {}", e),
                Err(e) => return Err(drive_err("writer-async", "finish", e)),
            }
        } else {
            // Drop blocks on the runtime handle: the transport must complete
            // without a later event, so Pending is switched off for the drop
            env.with(|e| e.obs.ev("drop-writer", 0, 0));
            // (SimSink consults cfg.pending, which we cannot reach through the
            // borrow; the env flag below makes Pending wake immediately)
            env.with(|e| e.wakers.clear());
            crate::simio::set_immediate_wake(env, true);
            drop(wr);
        }
    }
    check_writer_output(&sink.data, &wl, "writer-async")?;
    // same bytes as the sync writer for the same (payload, max, chunking)
    let mut refbuf: Vec<u8> = Vec::new();
    {
        let mut wr = PDataWriter::new_for_verif(&mut refbuf, wl.ctx, wl.max_pdu);
        let mut off = 0;
        for (c, _) in &wl.chunks {
            if wr.write_all(&wl.payload[off..off + c]).is_err() {
                // the sync writer's own defect; judged in its own configuration
                return Ok(());
            }
            off += c;
        }
        let _ = wr.finish();
    }
    check!(
        refbuf == sink.data,
        "pdata-async-equals-sync",
        "writer-async:differs-from-sync",
        "async writer produced {} bytes, sync writer {} bytes for the same payload/max/chunking",
        sink.data.len(),
        refbuf.len()
    );
    Ok(())
}

/// A message as a conforming writer would fragment it, by the independent
/// encoder: one PDV per PDU, non-final fragments non-empty, PDU length <= max.
fn gen_reader_stream(w: &mut Tape) -> (u32, Vec<u8>, Vec<u8>, Vec<Vec<u8>>) {
    let max_pdu = gen_max_pdu(w);
    let cap = max_pdu - 6;
    let ctx = (w.below(128) * 2 + 1) as u8;
    let len = match w.weighted(&[3, 3, 3]) {
        0 => w.below(16),
        1 => w.below(cap * 2 + 2),
        _ => w.below((3 * max_pdu).min(120_000) + 1),
    } as usize;
    let payload = pattern_bytes(w.below(3), len);
    let mut stream = Vec::new();
    let mut off = 0usize;
    let full = w.chance(1, 2);
    loop {
        let left = len - off;
        let frag = if full {
            left.min(cap as usize)
        } else {
            (1 + w.below(cap) as usize).min(left)
        };
        let last = off + frag == len && (frag > 0 || left == 0) && !(left > 0 && frag == 0);
        // a writer may also close with an empty final fragment
        let last = if last && left > 0 && w.chance(1, 8) { false } else { last };
        let pdu = RPdu::PData(vec![RPdv {
            ctx,
            header: if last { 2 } else { 0 },
            data: payload[off..off + frag].to_vec(),
        }]);
        stream.extend_from_slice(&rp::encode(&pdu).unwrap());
        off += frag;
        if last {
            break;
        }
        if off == len {
            // empty final fragment
            let pdu = RPdu::PData(vec![RPdv { ctx, header: 2, data: vec![] }]);
            stream.extend_from_slice(&rp::encode(&pdu).unwrap());
            break;
        }
    }
    // what the peer sends next
    let nnext = w.below(3);
    let mut next = Vec::new();
    for _ in 0..nnext {
        let p = match w.below(4) {
            0 => RPdu::ReleaseRq,
            1 => RPdu::Abort { source: 0, reason: 0 },
            2 => RPdu::PData(vec![RPdv {
                ctx,
                header: 3,
                data: pattern_bytes(1, w.below(300) as usize),
            }]),
            _ => RPdu::ReleaseRp,
        };
        next.push(rp::encode(&p).unwrap());
    }
    (max_pdu, payload, stream, next)
}

fn cuts_of(stream_len: usize, next: &[Vec<u8>]) -> Vec<usize> {
    let mut cuts = vec![stream_len, stream_len + 1, stream_len + 6];
    let mut p = stream_len;
    for n in next {
        p += n.len();
        cuts.push(p);
    }
    cuts
}

fn run_reader_sync(w: &mut Tape, env: &EnvRef) -> RunResult {
    let (max_pdu, payload, stream, next) = gen_reader_stream(w);
    let mut all = stream.clone();
    for n in &next {
        all.extend_from_slice(n);
    }
    let read_style = w.below(3);
    let mut src = SimSource::new(
        all,
        env,
        SrcCfg {
            short: true,
            interrupted: false,
            cuts: cuts_of(stream.len(), &next),
            ..Default::default()
        },
    );
    let mut read_buffer = BytesMut::new();
    let mut got = Vec::new();
    {
        let mut rd = PDataReader::new(&mut src, max_pdu, &mut read_buffer);
        let r = match read_style {
            0 => Read::read_to_end(&mut rd, &mut got).map(|_| ()),
            _ => {
                let bsz = if read_style == 1 { 1 + w.below(64) as usize } else { 1 + w.below(20000) as usize };
                let mut buf = vec![0u8; bsz];
                loop {
                    match Read::read(&mut rd, &mut buf) {
                        Ok(0) => break Ok(()),
                        Ok(n) => got.extend_from_slice(&buf[..n]),
                        Err(e) => break Err(e),
                    }
                    if got.len() > payload.len() + 100_000 {
                        break Ok(());
                    }
                }
            }
        };
        if let Err(e) = r {
            fail!("pdata-reader-no-error", format!("reader-sync:err:{}", io_class(&e)), "P-DATA reader failed on a well-formed stream: {}", e);
        }
    }
    check!(got == payload, "pdata-reader-payload", "reader-sync:payload-differs", "reader returned {} bytes, message has {}", got.len(), payload.len());
    if src.handed > stream.len() && !next.is_empty() {
        env.probe("trailing-pdu-coalesced");
    }
    // the bytes that follow are left for the next receive
    for (i, n) in next.iter().enumerate() {
        let expect = rp::parse_exact(n).unwrap();
        match read_pdu_from_wire(&mut src, &mut read_buffer, max_pdu, false) {
            Ok(p) => {
                let r = crate::convert::to_ref(&p).map_err(|e| simcore::Violation::new("harness", "HARNESS-PANIC@convert", e))?;
                check!(r == expect, "pdata-reader-leaves-rest", "reader-sync:next-pdu-differs", "PDU {} after the message: got {} want {}", i, crate::convert::short(&r), crate::convert::short(&expect));
            }
            Err(e) => fail!("pdata-reader-leaves-rest", "reader-sync:next-pdu-lost", "PDU {} after the message could not be received: {}", i, e),
        }
    }
    match read_pdu_from_wire(&mut src, &mut read_buffer, max_pdu, false) {
        Err(dicom_ul::association::Error::ConnectionClosed { .. }) => {}
        Err(e) => fail!("pdata-reader-leaves-rest", "reader-sync:end-not-closed", "after the last PDU: expected connection closed, got error {}", e),
        Ok(p) => fail!("pdata-reader-leaves-rest", "reader-sync:extra-pdu", "after the last PDU a further PDU was returned: {:?}", p.short_description().to_string()),
    }
    Ok(())
}

fn run_reader_async(w: &mut Tape, env: &EnvRef) -> RunResult {
    let (max_pdu, payload, stream, next) = gen_reader_stream(w);
    let mut all = stream.clone();
    for n in &next {
        all.extend_from_slice(n);
    }
    let read_style = w.below(2);
    let mut src = SimSource::new(
        all,
        env,
        SrcCfg {
            short: true,
            pending: true,
            cuts: cuts_of(stream.len(), &next),
            ..Default::default()
        },
    );
    let mut read_buffer = BytesMut::new();
    let mut got = Vec::new();
    {
        let mut rd = PDataReader::new(&mut src, max_pdu, &mut read_buffer);
        if read_style == 0 {
            let r = {
                let fut = pin!(AsyncReadExt::read_to_end(&mut rd, &mut got));
                drive(env, fut, 2_000_000)
            };
            match r {
                Ok(Ok(_)) => {}
                Ok(Err(e)) => fail!("pdata-reader-no-error", format!("reader-async:err:{}", io_class(&e)), "async P-DATA reader failed on a well-formed stream: {}", e),
                Err(e) => return Err(drive_err("reader-async", "read_to_end", e)),
            }
        } else {
            let bsz = 1 + w.below(5000) as usize;
            let mut buf = vec![0u8; bsz];
            loop {
                let r = {
                    let fut = pin!(AsyncReadExt::read(&mut rd, &mut buf));
                    drive(env, fut, 2_000_000)
                };
                match r {
                    Ok(Ok(0)) => break,
                    Ok(Ok(n)) => got.extend_from_slice(&buf[..n]),
                    Ok(Err(e)) => fail!("pdata-reader-no-error", format!("reader-async:err:{}", io_class(&e)), "async P-DATA reader failed on a well-formed stream: {}", e),
                    Err(e) => return Err(drive_err("reader-async", "read", e)),
                }
                if got.len() > payload.len() + 100_000 {
                    break;
                }
            }
        }
    }
    check!(got == payload, "pdata-reader-payload", "reader-async:payload-differs", "async reader returned {} bytes, message has {}", got.len(), payload.len());
    if src.handed > stream.len() && !next.is_empty() {
        env.probe("trailing-pdu-coalesced");
    }
    for (i, n) in next.iter().enumerate() {
        let expect = rp::parse_exact(n).unwrap();
        let r = {
            let fut = pin!(read_pdu_from_wire_async(&mut src, &mut read_buffer, max_pdu, false));
            drive(env, fut, 2_000_000)
        };
        match r {
            Ok(Ok(p)) => {
                let r = crate::convert::to_ref(&p).map_err(|e| simcore::Violation::new("harness", "HARNESS-PANIC@convert", e))?;
                check!(r == expect, "pdata-reader-leaves-rest", "reader-async:next-pdu-differs", "PDU {} after the message: got {} want {}", i, crate::convert::short(&r), crate::convert::short(&expect));
            }
            Ok(Err(e)) => fail!("pdata-reader-leaves-rest", "reader-async:next-pdu-lost", "PDU {} after the message could not be received: {}", i, e),
            Err(e) => return Err(drive_err("reader-async", "receive", e)),
        }
    }
    let r = {
        let fut = pin!(read_pdu_from_wire_async(&mut src, &mut read_buffer, max_pdu, false));
        drive(env, fut, 2_000_000)
    };
    match r {
        Ok(Err(dicom_ul::association::Error::ConnectionClosed { .. })) => {}
        Ok(Err(e)) => fail!("pdata-reader-leaves-rest", "reader-async:end-not-closed", "after the last PDU: expected connection closed, got error {}", e),
        Ok(Ok(p)) => fail!("pdata-reader-leaves-rest", "reader-async:extra-pdu", "after the last PDU a further PDU was returned: {}", p.short_description().to_string()),
        Err(e) => return Err(drive_err("reader-async", "receive", e)),
    }
    Ok(())
}

fn run(cfg: usize, w: &mut Tape, env: &EnvRef) -> RunResult {
    match cfg {
        0 => run_writer_sync(w, env),
        1 => run_writer_async(w, env),
        2 => run_reader_sync(w, env),
        _ => run_reader_async(w, env),
    }
}
