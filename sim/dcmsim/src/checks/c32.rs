//! C32 — the storage SCP stores exactly what it receives, only in its output
//! directory.

use crate::checks::dsio::{deflate, inflate};
use crate::dimse::{self, Command, Frag};
use crate::dsbuild::{describe, restrict_to, Lookups};
use crate::framework::{sandbox_dir, CheckDef};
use crate::nethelp::*;
use crate::simio::EnvRef;
use crate::simnet;
use dcmref::ds::{self, Elem, GenCfg, Prim, Syntax, Val};
use dcmref::pdu::{self as rp, RAssoc, RItem, RPdu, RSub};
use simcore::{check, fail, RunResult, Tape, Violation};
use std::path::{Component, Path, PathBuf};

pub fn def() -> CheckDef {
    CheckDef {
        id: "C32",
        level: "exploration",
        configs: &["sync", "async"],
        quick_runs: 24_000,
        thorough_runs: 1_000_000,
        run,
        rule: "one run = the real storescp per-connection body (run_store_sync / run_store_async, arguments parsed by the tool's \
               own clap definition: output directory, maximum PDU length, strict, promiscuous, uncompressed-only drawn per run) \
               as a node on a simulated connection, against a scripted requestor node (independent PS3.8/PS3.7 encoder) that \
               negotiates seed-drawn presentation contexts and sends 1..3 C-STORE requests (optionally a C-ECHO in between): \
               seed-drawn data set in the negotiated transfer syntax (implicit/explicit LE, explicit BE, deflated, \
               encapsulated RLE/JPEG fragments), seed-drawn Affected SOP Instance UID text (plain, parent references, path \
               separators into an existing sub-directory, absolute paths, dot names, padded, long), data cut into one or many \
               fragments (empty fragments, an empty last fragment alone in its own PDU, several PDVs per PDU); by the seed the \
               requestor gives up after a non-final PDU of a store and releases or aborts there; in a sixth of the runs the disk \
               (interposed write() on files the node creates) accepts a seed-drawn number of bytes and then fails with \
               ENOSPC/EIO once or persistently, or EINTR once, optionally after a short write: an unanswered store is then \
               legitimate, an acknowledged one must still be complete on disk. The seeded \
               scheduler decides node interleaving, send sizes, delivery segmentation and receive sizes. Oracles: every path \
               the node asks the OS to create (interposed open) and every file found on the sandbox file system afterwards \
               lies directly inside the output directory; for every store acknowledged with success there is a file directly \
               in the output directory whose meta group names the negotiated transfer syntax and the data set's SOP class and \
               instance and whose data set parses (independent PS3.5 parser) to the data set sent; the response carries the \
               request's message id and instance UID; the node does not panic and returns. distinct = distinct hashed \
               scheduler event sequences; non-trivial = a non-default scheduling or segmentation decision fired",
        real: &["storescp: run_store_sync, run_store_async and their inner loops, App (clap) argument parsing", "ServerAssociation / AsyncServerAssociation establish, receive, send", "InMemDicomObject::read_dataset_with_ts, FileMetaTableBuilder, write_to_file (real file system in a per-worker sandbox)", "std and tokio TcpStream, mio, tokio current-thread runtime"],
        stub: &["TCP/IP (simulated queues)", "the requestor (scripted, independent encoders)", "the listener accept loop of main() (each run hands one accepted connection to the per-connection body)", "open() is observed (and refused below an unreachable prefix) but otherwise real", "the disk: real tmpfs, with write() on files the node creates failing by the seed (simdisk)"],
        assumptions: &["the harness links the tool sources with transfer-syntax-registry features deflate+native; the shipped default build registers fewer supported syntaxes", "command sets are sent in one fragment (the tool ignores split command fragments; the property quantifies over data fragments)", "no connection faults here (C30/C34 carry those)"],
        required_probes: &["stored-ok", "uid-parent-ref", "uid-subdir", "uid-absolute", "uid-unreachable-absolute", "empty-last-fragment-own-pdu", "many-fragments", "ts-deflated", "ts-encapsulated", "ts-big-endian", "ts-implicit", "echo-interleaved", "several-pdvs-per-pdu", "release-answered", "aborted-by-peer", "release-mid-dataset", "abort-mid-dataset", "disk-write-failed", "disk-eintr", "disk-short-write"],
        net: true,
    }
}

const ABSTRACTS: &[&str] = &["1.2.840.10008.5.1.4.1.1.2", "1.2.840.10008.5.1.4.1.1.4", "1.2.840.10008.5.1.4.1.1.7", "1.2.840.10008.5.1.4.1.1.2.1", "1.2.3.4.5.6"];
const TS_IMPL: &str = "1.2.840.10008.1.2";
const TS_EXPL: &str = "1.2.840.10008.1.2.1";
const TS_BE: &str = "1.2.840.10008.1.2.2";
const TS_DEFL: &str = "1.2.840.10008.1.2.1.99";
const TS_RLE: &str = "1.2.840.10008.1.2.5";
const TS_JPEG: &str = "1.2.840.10008.1.2.4.50";
const TS_ALL: &[&str] = &[TS_IMPL, TS_EXPL, TS_BE, TS_DEFL, TS_RLE, TS_JPEG, "1.2.3.999.1"];
const ESCAPE: &str = "/dcmsim-unreachable";

fn harness(e: impl std::fmt::Display) -> Violation {
    Violation::new("harness", "harness", format!("harness: {}", e))
}

fn syntax_of(ts: &str) -> Option<(Syntax, bool, bool)> {
    // (data set syntax, deflated, encapsulated pixel data allowed)
    match ts {
        TS_IMPL => Some((Syntax::ImplicitLE, false, false)),
        TS_EXPL => Some((Syntax::ExplicitLE, false, false)),
        TS_BE => Some((Syntax::ExplicitBE, false, false)),
        TS_DEFL => Some((Syntax::ExplicitLE, true, false)),
        TS_RLE | TS_JPEG => Some((Syntax::ExplicitLE, false, true)),
        _ => None,
    }
}

#[derive(Clone, Debug)]
struct Store {
    ctx: u8,
    ts: String,
    affected_class: Vec<u8>,
    affected_instance: Vec<u8>,
    ds_class: Vec<u8>,
    ds_instance: Vec<u8>,
    model: Vec<Elem>,
    syn: Syntax,
    deflated: bool,
    data: Vec<u8>,
    msg_id: u16,
    uid_kind: &'static str,
    echo_before: bool,
}

#[derive(Clone, Debug, Default)]
struct ReqResult {
    accepted: Vec<(u8, String)>,
    /// per store: Some((status, msg id echoed, instance echoed)) when a response arrived
    responses: Vec<Option<(u16, Option<u16>, Option<Vec<u8>>)>>,
    echo_responses: Vec<(u16, Option<u16>)>,
    released: bool,
    release_sent: bool,
    aborted: bool,
    /// stopped sending in the middle of a store's PDUs, then released / aborted
    gave_up: bool,
    note: String,
    stores: Vec<Store>,
}

fn gen_instance_uid(w: &mut Tape, env: &EnvRef, k: usize, _base: &Path) -> (Vec<u8>, &'static str) {
    let n = w.weighted(&[6, 2, 2, 2, 1, 1, 1, 1, 1]);
    let (s, kind): (String, &'static str) = match n {
        0 => (format!("1.2.826.0.1.3680043.9.{}", 100 + k), "plain"),
        1 => (format!("../esc{}", k), "uid-parent-ref"),
        2 => (format!("sub/in{}", k), "uid-subdir"),
        // worker-independent text that resolves inside this worker's sandbox (its working directory)
        3 => (format!("/proc/self/cwd/other/abs{}", k), "uid-absolute"),
        4 => (format!("{}/x{}", ESCAPE, k), "uid-unreachable-absolute"),
        5 => (["..", ".", "", "...", "a..b"][w.below(5) as usize].to_string() + &"x".repeat(0), "uid-dots"),
        6 => (format!("../other/in{}", k), "uid-parent-ref"),
        7 => (format!("1.2.3.{}{}", k, ".1234567890".repeat(1 + w.below(30) as usize)), "uid-long"),
        _ => (format!("sub/../../esc{}", k), "uid-parent-ref"),
    };
    env.probe(kind);
    (s.into_bytes(), kind)
}

fn put_uid(model: &mut Vec<Elem>, tag: ds::Tag, v: &[u8]) {
    model.retain(|e| e.tag != tag);
    let pos = model.iter().position(|e| e.tag > tag).unwrap_or(model.len());
    model.insert(pos, Elem { tag, vr: *b"UI", val: Val::Prim(Prim::Text(v.to_vec())) });
}

fn normalize(p: &Path) -> PathBuf {
    let mut out = PathBuf::new();
    for c in p.components() {
        match c {
            Component::ParentDir => {
                out.pop();
            }
            Component::CurDir => {}
            other => out.push(other.as_os_str()),
        }
    }
    out
}

fn walk(dir: &Path, out: &mut Vec<PathBuf>) {
    if let Ok(rd) = std::fs::read_dir(dir) {
        for e in rd.flatten() {
            let p = e.path();
            if p.is_dir() {
                walk(&p, out);
            } else {
                out.push(p);
            }
        }
    }
}

fn run(cfgi: usize, w: &mut Tape, env: &EnvRef) -> RunResult {
    let is_async = cfgi == 1;
    // ---- sandbox on the real file system
    let base = sandbox_dir();
    let _ = std::fs::remove_dir_all(&base);
    let out_dir = base.join("store").join("out");
    std::fs::create_dir_all(out_dir.join("sub")).map_err(harness)?;
    std::fs::create_dir_all(base.join("store").join("other")).map_err(harness)?;
    std::fs::create_dir_all(base.join("other")).map_err(harness)?;
    std::env::set_current_dir(&base).map_err(harness)?;

    // ---- the tool's arguments
    let max_pdu: u32 = [16378u32, 1018, 4096, 65536, 131072][w.below(5) as usize];
    let strict = w.chance(1, 2);
    let promiscuous = w.chance(1, 4);
    let uncompressed_only = w.chance(1, 5);
    let mut args: Vec<String> = vec!["storescp".into(), "-o".into(), out_dir.display().to_string(), "-m".into(), max_pdu.to_string()];
    if strict {
        args.push("--strict".into());
    }
    if promiscuous {
        args.push("--promiscuous".into());
    }
    if uncompressed_only {
        args.push("--uncompressed-only".into());
    }
    if is_async {
        args.push("--non-blocking".into());
    }

    // ---- the request
    let nctx = 1 + w.below(4) as usize;
    let mut proposed: Vec<(u8, String, Vec<String>)> = Vec::new();
    for k in 0..nctx {
        let abs = ABSTRACTS[w.weighted(&[3, 3, 3, 2, 1]) as usize].to_string();
        let nts = 1 + w.below(3) as usize;
        let mut tss: Vec<String> = Vec::new();
        for _ in 0..nts {
            let t = TS_ALL[w.weighted(&[3, 3, 2, 2, 2, 2, 1]) as usize].to_string();
            if !tss.contains(&t) {
                tss.push(t);
            }
        }
        proposed.push(((2 * k + 1) as u8, abs, tss));
    }
    let their_max = [0u32, 16384, 1018, 65536][w.below(4) as usize];
    let rq = rp::encode(&RPdu::AssocRq(RAssoc {
        version: 1,
        called: b"STORE-SCP".to_vec(),
        calling: b"SIM-SCU".to_vec(),
        items: std::iter::once(RItem::AppCtx(b"1.2.840.10008.3.1.1.1".to_vec()))
            .chain(proposed.iter().map(|(id, abs, tss)| RItem::PcProposed {
                id: *id,
                subs: std::iter::once(RSub { ty: 0x30, data: abs.as_bytes().to_vec() }).chain(tss.iter().map(|t| RSub { ty: 0x40, data: t.as_bytes().to_vec() })).collect(),
            }))
            .chain(std::iter::once(RItem::UserInfo(vec![rp::sub_max_length(their_max), rp::sub_impl_class_uid(b"1.2.3.999")])))
            .collect(),
    }))
    .map_err(harness)?;

    // the stores are drawn now (the tape must not be touched by node threads), one per possible context;
    // the requestor uses those whose context turns out to be accepted
    let nstores = 1 + w.below(3) as usize;
    let mut planned: Vec<Vec<Store>> = Vec::new(); // per store slot: one candidate per proposed (ctx, ts)
    let mut frag_tapes: Vec<u64> = Vec::new();
    for k in 0..nstores {
        let (inst, kind) = gen_instance_uid(w, env, k, &base);
        let ds_inst = if w.chance(1, 3) { inst.clone() } else { format!("1.2.826.0.1.3680043.8.{}", 500 + k).into_bytes() };
        let echo_before = w.chance(1, 6);
        let model_seed_lo = w.below(1 << 30);
        let mut cands = Vec::new();
        for (id, abs, tss) in &proposed {
            for ts in tss {
                if let Some((syn, deflated, encaps)) = syntax_of(ts) {
                    // the same seed for each candidate keeps the run's tape short
                    let mut t2 = Tape::generate(simcore::mix(model_seed_lo as u64, 77 + k as u64));
                    let gcfg = GenCfg { encapsulated: encaps, pixel: true, latin1: t2.chance(1, 4), utf8: t2.chance(1, 5), ..Default::default() };
                    let mut model = restrict_to(&ds::gen_dataset(&mut t2, &gcfg), syn);
                    if !encaps {
                        model.retain(|e| !matches!(e.val, Val::Frags { .. }));
                    }
                    let class: Vec<u8> = abs.as_bytes().to_vec();
                    put_uid(&mut model, (0x0008, 0x0016), &class);
                    put_uid(&mut model, (0x0008, 0x0018), &ds_inst);
                    let (bytes, _) = ds::encode(&model, syn, None).map_err(harness)?;
                    let data = if deflated { deflate(&bytes) } else { bytes };
                    cands.push(Store {
                        ctx: *id,
                        ts: ts.clone(),
                        affected_class: class.clone(),
                        affected_instance: inst.clone(),
                        ds_class: class,
                        ds_instance: ds_inst.clone(),
                        model,
                        syn,
                        deflated,
                        data,
                        msg_id: (10 + 7 * k) as u16,
                        uid_kind: kind,
                        echo_before,
                    });
                }
            }
        }
        planned.push(cands);
        frag_tapes.push(w.below(1 << 30) as u64);
    }
    let pick_seed = w.below(1 << 30) as u64;
    let end_with_abort = w.chance(1, 6);
    // the requestor may give up in the middle of a data set (after at least one, but not the last, PDU of a store)
    // and end the session there: (store slot, cut position seed)
    let give_up: Option<(usize, u32)> = if w.chance(1, 6) { Some((w.below(nstores as u32) as usize, w.below(1 << 16))) } else { None };
    env.with(|e| {
        e.obs.note_with(|| {
            format!(
                "args {:?}; proposed {:?}; their max {}; stores: {}",
                &args[3..],
                proposed,
                their_max,
                planned.iter().map(|c| c.first().map(|s| format!("[{} inst={:?} ds_inst={:?}]", s.uid_kind, String::from_utf8_lossy(&s.affected_instance), String::from_utf8_lossy(&s.ds_instance))).unwrap_or_else(|| "[no candidate]".into())).collect::<Vec<_>>().join(" ")
            )
        })
    });

    // by the seed the disk under the output directory fails: it accepts a seed-drawn number of bytes and then
    // returns ENOSPC / EIO (once or persistently, optionally after a short write), or EINTR once (transient)
    let disk_plan: Option<crate::simdisk::Plan> = if w.chance(1, 6) {
        let total: usize = planned.iter().map(|c| c.first().map(|s| s.data.len() + 400).unwrap_or(0)).sum();
        let errno = [libc::ENOSPC, libc::EIO, libc::EINTR][w.below(3) as usize];
        Some(crate::simdisk::Plan { fail_at: w.below(total as u32 + 64) as u64, errno, short: w.chance(1, 2), persistent: errno != libc::EINTR && w.chance(1, 2) })
    } else {
        None
    };
    env.with(|e| e.obs.note_with(|| format!("disk plan {:?}", disk_plan)));
    simnet::begin(env, w.below(1 << 30) as u64);
    simnet::with_net(|n| n.escape_prefix = ESCAPE.to_string());
    if let Some(p) = &disk_plan {
        crate::simdisk::arm(p.clone());
    }
    let conn = simnet::connection(None);
    let res = shared(ReqResult::default());
    let tool_res: Shared<Option<Result<(), String>>> = shared(None);

    // ---- the storescp node
    {
        let fd = simnet::fd_of(conn.a);
        let args = args.clone();
        let tool_res = tool_res.clone();
        simnet::spawn_node("storescp", is_async, move || {
            let r = if is_async { async_rt().block_on(async { tool_storescp::serve_async(tokio_stream(fd), &args).await }) } else { tool_storescp::serve_sync(std_stream(fd), &args) };
            *tool_res.lock().unwrap() = Some(r);
        });
    }
    // ---- the requestor node
    {
        let fd = simnet::fd_of(conn.b);
        let res = res.clone();
        let max_pdu = max_pdu as usize;
        simnet::spawn_node("requestor", false, move || {
            let mut buf = Vec::new();
            let mut out = ReqResult::default();
            let finish = |out: ReqResult| {
                *res.lock().unwrap() = out;
                raw_close(fd);
            };
            if !raw_send_all(fd, &rq) {
                out.note = "send of A-ASSOCIATE-RQ failed".into();
                return finish(out);
            }
            let ac = match raw_recv_pdu(fd, &mut buf) {
                Some((2, b)) => match rp::parse_body(2, &b) {
                    Ok(RPdu::AssocAc(a)) => a,
                    _ => {
                        out.note = "A-ASSOCIATE-AC does not parse".into();
                        return finish(out);
                    }
                },
                Some((t, _)) => {
                    out.note = format!("association answered with PDU type {}", t);
                    return finish(out);
                }
                None => {
                    out.note = "connection closed before A-ASSOCIATE-AC".into();
                    return finish(out);
                }
            };
            for it in &ac.items {
                if let RItem::PcResult { id, reason: 0, subs } = it {
                    if let Some(s) = subs.iter().find(|s| s.ty == 0x40) {
                        out.accepted.push((*id, String::from_utf8_lossy(ds::trim_uid(&s.data)).to_string()));
                    }
                }
            }
            let mut pick = Tape::generate(pick_seed);
            let mut echo_id = 900u16;
            'stores: for (k, cands) in planned.iter().enumerate() {
                let usable: Vec<&Store> = cands.iter().filter(|c| out.accepted.iter().any(|(id, ts)| *id == c.ctx && *ts == c.ts)).collect();
                if usable.is_empty() {
                    continue;
                }
                let st = usable[pick.below(usable.len() as u32) as usize].clone();
                let mut ft = Tape::generate(frag_tapes[k]);
                if st.echo_before {
                    echo_id += 1;
                    let pdus = dimse::pack(&mut ft, &[Frag { ctx: st.ctx, command: true, last: true, data: dimse::c_echo_rq(echo_id) }], max_pdu);
                    for p in &pdus {
                        if !raw_send_all(fd, p) {
                            break 'stores;
                        }
                    }
                    match raw_recv_pdu(fd, &mut buf) {
                        Some((4, b)) => {
                            if let Ok(RPdu::PData(pdvs)) = rp::parse_body(4, &b) {
                                let mut r = dimse::Reassembler::default();
                                r.feed(&pdvs);
                                if let Some((_, true, bytes)) = r.done.first() {
                                    if let Ok(c) = Command::parse(bytes) {
                                        out.echo_responses.push((echo_id, c.u16((0, 0x0120))));
                                    }
                                }
                            }
                        }
                        _ => break 'stores,
                    }
                }
                let mut frags = vec![Frag { ctx: st.ctx, command: true, last: true, data: dimse::c_store_rq(&st.affected_class, &st.affected_instance, st.msg_id) }];
                let max_frag = max_pdu - 6;
                if frags[0].data.len() > max_frag {
                    continue;
                }
                frags.extend(dimse::fragment(&mut ft, st.ctx, false, &st.data, max_frag, true));
                let pdus = dimse::pack(&mut ft, &frags, max_pdu);
                if let Some((slot, cut)) = give_up {
                    if slot == k && pdus.len() >= 2 {
                        let n = 1 + (cut as usize) % (pdus.len() - 1);
                        for p in &pdus[..n] {
                            if !raw_send_all(fd, p) {
                                out.note = "send failed during a store".into();
                                break 'stores;
                            }
                        }
                        out.gave_up = true;
                        break 'stores;
                    }
                }
                out.stores.push(st.clone());
                out.responses.push(None);
                for p in &pdus {
                    if !raw_send_all(fd, p) {
                        out.note = "send failed during a store".into();
                        break 'stores;
                    }
                }
                // shape probes are recorded by the checker from `sent`
                match raw_recv_pdu(fd, &mut buf) {
                    Some((4, b)) => match rp::parse_body(4, &b) {
                        Ok(RPdu::PData(pdvs)) => {
                            let mut r = dimse::Reassembler::default();
                            r.feed(&pdvs);
                            match r.done.first() {
                                Some((_, true, bytes)) => match Command::parse(bytes) {
                                    Ok(c) => {
                                        *out.responses.last_mut().unwrap() = Some((c.u16((0, 0x0900)).unwrap_or(0xFFFF), c.u16((0, 0x0120)), c.uid((0, 0x1000))));
                                    }
                                    Err(e) => {
                                        out.note = format!("response command does not parse: {}", e);
                                        break 'stores;
                                    }
                                },
                                _ => {
                                    out.note = "response is not a complete command".into();
                                    break 'stores;
                                }
                            }
                        }
                        _ => {
                            out.note = "response P-DATA does not parse".into();
                            break 'stores;
                        }
                    },
                    Some((t, _)) => {
                        out.note = format!("store answered with PDU type {}", t);
                        break 'stores;
                    }
                    None => {
                        out.note = "connection closed instead of a store response".into();
                        break 'stores;
                    }
                }
            }
            if out.note.is_empty() {
                if end_with_abort {
                    raw_send_all(fd, &rp::encode(&RPdu::Abort { source: 0, reason: 0 }).unwrap());
                    out.aborted = true;
                } else if raw_send_all(fd, &rp::encode(&RPdu::ReleaseRq).unwrap()) {
                    out.release_sent = true;
                    out.released = matches!(raw_recv_pdu(fd, &mut buf), Some((6, _)));
                }
            }
            finish(out);
        });
    }

    let rep = simnet::run(120_000);
    let end = simnet::end();
    let disk = crate::simdisk::disarm();
    // a hard disk failure was reported to the tool (EINTR is retried by std and is no failure)
    let disk_failed = disk.fired > 0 && disk_plan.as_ref().map(|p| p.errno != libc::EINTR).unwrap_or(false);
    if disk_failed {
        env.probe("disk-write-failed");
    } else if disk.fired > 0 {
        env.probe("disk-eintr");
    }
    if disk.short_writes > 0 {
        env.probe("disk-short-write");
    }
    if end.needs_restart {
        simnet::request_restart();
    }
    for n in &end.nodes {
        if let Some(p) = &n.panicked {
            fail!("no-panic", format!("c32:panic:{}", n.name), "node {} panicked: {}", n.name, p);
        }
    }
    check!(rep.finished, "terminates", "c32:stuck", "nodes did not finish: {:?} after {} steps", rep.stuck, rep.steps);
    let r = res.lock().unwrap().clone();
    let who = if is_async { "async" } else { "sync" };

    // ---- (1) where files were created
    let out_norm = normalize(&out_dir);
    for (node, path) in &end.created {
        let _ = node;
        let p = normalize(Path::new(path));
        let inside = p.parent() == Some(out_norm.as_path());
        check!(
            inside,
            "only-in-output-directory",
            format!("c32:{}:created-outside", who),
            "storescp asked the OS to create {:?}, which is not directly inside its output directory {:?} (Affected SOP Instance UIDs sent: {:?})",
            path,
            out_dir,
            r.stores.iter().map(|s| String::from_utf8_lossy(&s.affected_instance).to_string()).collect::<Vec<_>>()
        );
    }
    let mut files = Vec::new();
    walk(&base, &mut files);
    for f in &files {
        check!(f.parent() == Some(out_dir.as_path()), "only-in-output-directory", format!("c32:{}:file-outside", who), "after the association a file exists at {:?}, not directly inside the output directory {:?}", f, out_dir);
    }

    // ---- (2) content of what was acknowledged
    let parsed_files: Vec<(PathBuf, Vec<u8>)> = files.iter().filter_map(|f| std::fs::read(f).ok().map(|b| (f.clone(), b))).collect();
    for (k, st) in r.stores.iter().enumerate() {
        let resp = &r.responses[k];
        match st.ts.as_str() {
            TS_DEFL => env.probe("ts-deflated"),
            TS_RLE | TS_JPEG => env.probe("ts-encapsulated"),
            TS_BE => env.probe("ts-big-endian"),
            TS_IMPL => env.probe("ts-implicit"),
            _ => {}
        }
        if st.echo_before {
            env.probe("echo-interleaved");
        }
        let name_fits = st.affected_instance.len() + 4 <= 255;
        let (status, echoed_id, echoed_inst) = match resp {
            Some(x) => x.clone(),
            None => {
                // a complete, valid request on an accepted context was sent (the requestor only stops sending on a
                // send error): the tool must store it and answer, unless the file name cannot exist
                // (after a reported disk failure the tool may give up the association instead)
                check!(
                    !name_fits || disk_failed,
                    "stores-what-it-receives",
                    format!("c32:{}:store-not-answered", who),
                    "a complete C-STORE request (context {}, {}, affected instance {:?}, {} data bytes) was never answered: {}",
                    st.ctx,
                    st.ts,
                    String::from_utf8_lossy(&st.affected_instance),
                    st.data.len(),
                    if r.note.is_empty() { "the tool kept waiting" } else { &r.note }
                );
                continue;
            }
        };
        check!(echoed_id == Some(st.msg_id), "response", format!("c32:{}:response-message-id", who), "C-STORE response answers message id {:?}, the request had {}", echoed_id, st.msg_id);
        check!(
            echoed_inst.as_deref() == Some(ds::trim_uid(&st.affected_instance)),
            "response",
            format!("c32:{}:response-instance", who),
            "C-STORE response names instance {:?}, the request had {:?}",
            echoed_inst.as_ref().map(|b| String::from_utf8_lossy(b).to_string()),
            String::from_utf8_lossy(&st.affected_instance)
        );
        check!(status == 0 || disk_failed, "stores-what-it-receives", format!("c32:{}:store-refused", who), "a valid C-STORE request was answered with status {:04X}H", status);
        if status != 0 {
            continue;
        }
        if disk_failed {
            // the decisive case: success acknowledged in a session whose disk failed - the file must be complete all the same
            env.probe("acknowledged-despite-disk-failure");
        }
        env.probe("stored-ok");
        // a later store with the same affected instance UID text may overwrite this one
        // (after a reported disk failure also by a later store that was not acknowledged: the tool truncates the
        // file when it starts to write)
        let overwritten = r.stores.iter().enumerate().any(|(j, o)| j > k && o.affected_instance == st.affected_instance && (disk_failed || matches!(r.responses[j], Some((0, _, _)))));
        if overwritten {
            continue;
        }
        let lk = Lookups::of(&st.model);
        let (canon, _) = ds::encode(&st.model, st.syn, None).map_err(harness)?;
        let want = lk.parse(&canon, st.syn).map_err(|e| harness(format!("sent data set does not parse: {}", e)))?;
        let mut found = false;
        let mut why = Vec::new();
        for (path, bytes) in &parsed_files {
            if path.parent() != Some(out_dir.as_path()) {
                continue;
            }
            let (meta, off) = match ds::parse_file_meta_opts(bytes, !st.deflated) {
                Ok(x) => x,
                Err(e) => {
                    why.push(format!("{:?}: meta group invalid: {}", path.file_name(), e));
                    continue;
                }
            };
            let inst = ds::meta_value(&meta, (2, 3)).map(ds::trim_uid).unwrap_or(b"");
            if inst != ds::trim_uid(&st.ds_instance) {
                why.push(format!("{:?}: media storage SOP instance {:?}", path.file_name(), String::from_utf8_lossy(inst)));
                continue;
            }
            let class = ds::meta_value(&meta, (2, 2)).map(ds::trim_uid).unwrap_or(b"");
            let ts = ds::meta_value(&meta, (2, 0x10)).map(ds::trim_uid).unwrap_or(b"");
            check!(ts == st.ts.as_bytes(), "stored-content", format!("c32:{}:meta-transfer-syntax", who), "stored file {:?} declares transfer syntax {:?}, negotiated was {}", path, String::from_utf8_lossy(ts), st.ts);
            check!(class == ds::trim_uid(&st.ds_class), "stored-content", format!("c32:{}:meta-sop-class", who), "stored file {:?} declares media storage SOP class {:?}, the data set has {:?}", path, String::from_utf8_lossy(class), String::from_utf8_lossy(&st.ds_class));
            let body = &bytes[off..];
            let body = if st.deflated {
                match inflate(body) {
                    Ok(b) => b,
                    Err(e) => fail!("stored-content", format!("c32:{}:stored-deflate-invalid", who), "stored file {:?}: deflated data set does not inflate: {}", path, e),
                }
            } else {
                body.to_vec()
            };
            let got = match lk.parse(&body, st.syn) {
                Ok(p) => p,
                Err(e) => fail!("stored-content", format!("c32:{}:stored-dataset-invalid", who), "stored file {:?}: data set is not valid in {}: {} [{}]", path, st.ts, e, describe(&st.model)),
            };
            check!(got == want, "stored-content", format!("c32:{}:stored-dataset-differs", who), "stored file {:?}: data set differs from the data set sent ({} fragments path) [{}]", path, st.ts, describe(&st.model));
            found = true;
            break;
        }
        check!(
            found,
            "stored-content",
            format!("c32:{}:acknowledged-but-not-stored", who),
            "store of instance {:?} (affected instance text {:?}) was acknowledged with success but no file directly in the output directory holds it; files: {:?}",
            String::from_utf8_lossy(&st.ds_instance),
            String::from_utf8_lossy(&st.affected_instance),
            why
        );
    }
    // ---- (3) the session ends by the protocol (C30's clause for the storescp loops)
    if r.release_sent {
        env.probe("release-answered");
        if r.gave_up {
            env.probe("release-mid-dataset");
        }
        check!(
            r.released,
            "release-answered",
            format!("c32:{}:release-not-answered", who),
            "the requestor's A-RELEASE-RQ {} was not answered with A-RELEASE-RP",
            if r.gave_up { "in the middle of a data set (after a non-final fragment of a store)" } else { "after a clean session" }
        );
        let (pdus, _) = wire_pdus(&end.eps[conn.a]);
        check!(matches!(pdus.last(), Some(Ok(RPdu::ReleaseRp))), "release-answered", format!("c32:{}:sends-after-release-rp", who), "storescp sent something after its A-RELEASE-RP");
    }
    if r.aborted {
        env.probe("aborted-by-peer");
        if r.gave_up {
            env.probe("abort-mid-dataset");
        }
        let (pdus, _) = wire_pdus(&end.eps[conn.a]);
        let n_before = pdus.len();
        let _ = n_before;
        check!(end.eps[conn.a].closed, "abort-closes", format!("c32:{}:open-after-abort", who), "storescp did not close the connection after the peer's A-ABORT");
    }
    for (id, echoed) in &r.echo_responses {
        // observation only: the C-ECHO response's message id (not part of the storage property)
        if *echoed != Some(*id) {
            env.probe("echo-response-stale-message-id");
        }
    }
    // ---- shape probes from the wire
    let (frames, _) = rp::frame(&end.eps[conn.b].sent);
    for (t, b) in frames.iter().skip(1) {
        if *t == 4 {
            if let Ok(RPdu::PData(pdvs)) = rp::parse_body(4, b) {
                if pdvs.len() > 1 {
                    env.probe("several-pdvs-per-pdu");
                }
                if pdvs.len() == 1 && pdvs[0].data.is_empty() && pdvs[0].header == 2 {
                    env.probe("empty-last-fragment-own-pdu");
                }
            }
        }
    }
    if frames.iter().filter(|(t, _)| *t == 4).count() > 6 {
        env.probe("many-fragments");
    }
    let _ = tool_res;
    Ok(())
}
