//! C27 — PDU reception is independent of how the byte stream is segmented.
//! Level 1: `read_pdu_from_wire` / `read_pdu_from_wire_async` over a simulated
//! source. (Level 2, leftovers at establishment, lives in the simnet checks.)

use crate::convert::to_ref;
use crate::framework::CheckDef;
use crate::pdugen::{gen_pdu, GenOpts};
use crate::simio::*;
use bytes::BytesMut;
use dcmref::pdu as rp;
use dicom_ul::association::{read_pdu_from_wire, read_pdu_from_wire_async, Error};
use dicom_ul::pdu::Pdu;
use simcore::{check, fail, RunResult, Tape, Violation};
use std::pin::pin;

pub fn def() -> CheckDef {
    CheckDef {
        id: "C27",
        level: "exploration",
        configs: &["wire-sync", "wire-async"],
        quick_runs: 300_000,
        thorough_runs: 6_000_000,
        run,
        rule: "one run = a sequence of 1-8 generated PDUs (all types incl. unknown, association PDUs with many sub-items, \
               P-DATA up to 40 kB) encoded by the independent PS3.8 encoder and served to the real receiver through a \
               simulated source whose read sizes are drawn from the seed (1-byte reads, cuts inside the 6-byte header and at \
               PDU boundaries, everything in one read; async: Pending anywhere); n receives must return the n PDUs in order \
               and receive n+1 must report the connection closed. distinct = distinct hashed sequences of environment event \
               kinds with log2 size classes; non-trivial = at least one short read / Pending fired",
        real: &["dicom_ul::association::read_pdu_from_wire", "read_pdu_from_wire_async", "dicom_ul::pdu::read_pdu"],
        stub: &["transport (SimSource)", "sender (independent PS3.8 encoder)", "executor (manual poller)"],
        assumptions: &["PDU values come from the round-trippable repertoire of C25 (strings without edge whitespace)"],
        required_probes: &["two-pdus-in-one-read", "pdu-split-across-reads", "cut-inside-header", "leftover-carried"],
        net: false,
    }
}

pub struct Seq {
    pub pdus: Vec<Pdu>,
    pub wire: Vec<Vec<u8>>,
    pub max_pdu: u32,
    pub strict: bool,
}

pub fn gen_seq(w: &mut Tape) -> Result<Seq, Violation> {
    let n = 1 + w.below(8);
    let opts = GenOpts {
        big: false,
        max_pdata: if w.chance(1, 4) { 40_000 } else { 2_000 },
        unknown: true,
    };
    let mut pdus = Vec::new();
    let mut wire = Vec::new();
    let mut longest = 0usize;
    for _ in 0..n {
        let p = gen_pdu(w, &opts);
        let r = to_ref(&p).map_err(|e| Violation::new("harness", "HARNESS-PANIC@gen", e))?;
        let b = match rp::encode(&r) {
            Ok(b) => b,
            Err(_) => continue, // not expressible on the wire; not part of this check
        };
        longest = longest.max(b.len() - 6);
        pdus.push(p);
        wire.push(b);
    }
    let strict = w.chance(1, 2);
    // receiver's own maximum: at least the longest PDU (strict mode rejects longer ones by design)
    let max_pdu = (longest as u32).max(1018) + [0, 0, 1, 6, 1000][w.below(5) as usize];
    Ok(Seq {
        pdus,
        wire,
        max_pdu,
        strict,
    })
}

fn boundaries(wire: &[Vec<u8>]) -> Vec<usize> {
    let mut v = Vec::new();
    let mut p = 0;
    for b in wire {
        v.extend_from_slice(&[p + 1, p + 2, p + 5, p + 6, p + 7]);
        p += b.len();
        v.push(p - 1);
        v.push(p);
    }
    v
}

fn note_probes(env: &EnvRef, wire: &[Vec<u8>], reads: &[(usize, usize)]) {
    // reads: (offset, n) of every delivery
    let mut bounds = Vec::new();
    let mut p = 0;
    for b in wire {
        bounds.push((p, p + b.len()));
        p += b.len();
    }
    for &(off, n) in reads {
        let end = off + n;
        let mut inside = 0;
        for &(s, e) in &bounds {
            if s >= off && e <= end {
                inside += 1;
            }
            if (off > s && off < e) || (end > s && end < e) {
                env.probe("pdu-split-across-reads");
            }
            if end > s && end < s + 6 {
                env.probe("cut-inside-header");
            }
        }
        if inside >= 2 {
            env.probe("two-pdus-in-one-read");
        }
    }
}

fn run_sync(w: &mut Tape, env: &EnvRef) -> RunResult {
    let seq = gen_seq(w)?;
    let all: Vec<u8> = seq.wire.concat();
    let mut src = SimSource::new(
        all,
        env,
        SrcCfg {
            short: true,
            interrupted: false,
            cuts: boundaries(&seq.wire),
            ..Default::default()
        },
    );
    let mut rb = BytesMut::new();
    let mut reads = Vec::new();
    for (i, want) in seq.pdus.iter().enumerate() {
        let before = src.handed;
        if !rb.is_empty() {
            env.probe("leftover-carried");
        }
        match read_pdu_from_wire(&mut src, &mut rb, seq.max_pdu, seq.strict) {
            Ok(got) => {
                check!(&got == want, "receive-sequence", "wire-sync:pdu-differs", "receive {} returned {} but {} was sent", i, got.short_description(), want.short_description());
            }
            Err(e) => fail!("receive-sequence", "wire-sync:receive-failed", "receive {} of {} failed: {} (sent {})", i, seq.pdus.len(), e, want.short_description()),
        }
        if src.handed > before {
            reads.push((before, src.handed - before));
        }
    }
    match read_pdu_from_wire(&mut src, &mut rb, seq.max_pdu, seq.strict) {
        Err(Error::ConnectionClosed { .. }) => {}
        Err(e) => fail!("receive-sequence", "wire-sync:end-not-closed", "receive after the last PDU: expected connection closed, got {}", e),
        Ok(p) => fail!("receive-sequence", "wire-sync:extra-pdu", "receive after the last PDU returned {}", p.short_description()),
    }
    note_probes(env, &seq.wire, &reads);
    Ok(())
}

fn run_async(w: &mut Tape, env: &EnvRef) -> RunResult {
    let seq = gen_seq(w)?;
    let all: Vec<u8> = seq.wire.concat();
    let mut src = SimSource::new(
        all,
        env,
        SrcCfg {
            short: true,
            pending: true,
            cuts: boundaries(&seq.wire),
            ..Default::default()
        },
    );
    let mut rb = BytesMut::new();
    let mut reads = Vec::new();
    for (i, want) in seq.pdus.iter().enumerate() {
        let before = src.handed;
        if !rb.is_empty() {
            env.probe("leftover-carried");
        }
        let r = {
            let fut = pin!(read_pdu_from_wire_async(&mut src, &mut rb, seq.max_pdu, seq.strict));
            drive(env, fut, 2_000_000)
        };
        match r {
            Ok(Ok(got)) => {
                check!(&got == want, "receive-sequence", "wire-async:pdu-differs", "receive {} returned {} but {} was sent", i, got.short_description(), want.short_description());
            }
            Ok(Err(e)) => fail!("receive-sequence", "wire-async:receive-failed", "receive {} of {} failed: {} (sent {})", i, seq.pdus.len(), e, want.short_description()),
            Err(DriveError::LostWakeup { polls }) => fail!("async-no-lost-wakeup", "wire-async:lost-wakeup", "receive returned Pending after {} polls with no registered waker", polls),
            Err(DriveError::Budget { polls }) => fail!("async-progress", "wire-async:poll-budget", "receive still pending after {} polls", polls),
        }
        if src.handed > before {
            reads.push((before, src.handed - before));
        }
    }
    let r = {
        let fut = pin!(read_pdu_from_wire_async(&mut src, &mut rb, seq.max_pdu, seq.strict));
        drive(env, fut, 2_000_000)
    };
    match r {
        Ok(Err(Error::ConnectionClosed { .. })) => {}
        Ok(Err(e)) => fail!("receive-sequence", "wire-async:end-not-closed", "receive after the last PDU: expected connection closed, got {}", e),
        Ok(Ok(p)) => fail!("receive-sequence", "wire-async:extra-pdu", "receive after the last PDU returned {}", p.short_description()),
        Err(_) => fail!("async-progress", "wire-async:end-hang", "receive after the last PDU does not complete"),
    }
    note_probes(env, &seq.wire, &reads);
    Ok(())
}

fn run(cfg: usize, w: &mut Tape, env: &EnvRef) -> RunResult {
    match cfg {
        0 => run_sync(w, env),
        _ => run_async(w, env),
    }
}
