//! C27 — PDU reception is independent of how the byte stream is segmented.
//! Level 1: `read_pdu_from_wire` / `read_pdu_from_wire_async` over a simulated
//! source. (Level 2, leftovers at establishment, lives in the simnet checks.)

use crate::convert::to_ref;
use crate::framework::CheckDef;
use crate::pdugen::{gen_pdu, GenOpts};
use crate::simio::*;
use bytes::BytesMut;
use dcmref::pdu as rp;
use dicom_ul::association::{read_pdu_from_wire, read_pdu_from_wire_async, Error};
use dicom_ul::pdu::Pdu;
use simcore::{check, fail, RunResult, Tape, Violation};
use std::pin::pin;

pub fn def() -> CheckDef {
    CheckDef {
        id: "C27",
        level: "exploration",
        configs: &["wire-sync", "wire-async", "establish-server-sync", "establish-server-async", "establish-client-sync", "establish-client-async"],
        quick_runs: 150_000,
        thorough_runs: 6_000_000,
        run,
        rule: "one run = a sequence of 1-8 generated PDUs (all types incl. unknown, association PDUs with many sub-items, \
               P-DATA up to 40 kB) encoded by the independent PS3.8 encoder and served to the real receiver through a \
               simulated source whose read sizes are drawn from the seed (1-byte reads, cuts inside the 6-byte header and at \
               PDU boundaries, everything in one read; async: Pending anywhere); n receives must return the n PDUs in order \
               and receive n+1 must report the connection closed. distinct = distinct hashed sequences of environment event \
               kinds with log2 size classes; non-trivial = at least one short read / Pending fired",
        real: &["dicom_ul::association::read_pdu_from_wire", "read_pdu_from_wire_async", "dicom_ul::pdu::read_pdu"],
        stub: &["transport (SimSource)", "sender (independent PS3.8 encoder)", "executor (manual poller)"],
        assumptions: &["PDU values come from the round-trippable repertoire of C25 (strings without edge whitespace)"],
        required_probes: &["two-pdus-in-one-read", "pdu-split-across-reads", "cut-inside-header", "leftover-carried", "leftover-at-establishment"],
        net: true,
    }
}

pub struct Seq {
    pub pdus: Vec<Pdu>,
    pub wire: Vec<Vec<u8>>,
    pub max_pdu: u32,
    pub strict: bool,
}

pub fn gen_seq(w: &mut Tape) -> Result<Seq, Violation> {
    let n = 1 + w.below(8);
    let opts = GenOpts {
        big: false,
        max_pdata: if w.chance(1, 4) { 40_000 } else { 2_000 },
        unknown: true,
    };
    let mut pdus = Vec::new();
    let mut wire = Vec::new();
    let mut longest = 0usize;
    for _ in 0..n {
        let p = gen_pdu(w, &opts);
        let r = to_ref(&p).map_err(|e| Violation::new("harness", "HARNESS-PANIC@gen", e))?;
        let b = match rp::encode(&r) {
            Ok(b) => b,
            Err(_) => continue, // not expressible on the wire; not part of this check
        };
        longest = longest.max(b.len() - 6);
        pdus.push(p);
        wire.push(b);
    }
    let strict = w.chance(1, 2);
    // receiver's own maximum: at least the longest PDU (strict mode rejects longer ones by design)
    let max_pdu = (longest as u32).max(1018) + [0, 0, 1, 6, 1000][w.below(5) as usize];
    Ok(Seq {
        pdus,
        wire,
        max_pdu,
        strict,
    })
}

fn boundaries(wire: &[Vec<u8>]) -> Vec<usize> {
    let mut v = Vec::new();
    let mut p = 0;
    for b in wire {
        v.extend_from_slice(&[p + 1, p + 2, p + 5, p + 6, p + 7]);
        p += b.len();
        v.push(p - 1);
        v.push(p);
    }
    v
}

fn note_probes(env: &EnvRef, wire: &[Vec<u8>], reads: &[(usize, usize)]) {
    // reads: (offset, n) of every delivery
    let mut bounds = Vec::new();
    let mut p = 0;
    for b in wire {
        bounds.push((p, p + b.len()));
        p += b.len();
    }
    for &(off, n) in reads {
        let end = off + n;
        let mut inside = 0;
        for &(s, e) in &bounds {
            if s >= off && e <= end {
                inside += 1;
            }
            if (off > s && off < e) || (end > s && end < e) {
                env.probe("pdu-split-across-reads");
            }
            if end > s && end < s + 6 {
                env.probe("cut-inside-header");
            }
        }
        if inside >= 2 {
            env.probe("two-pdus-in-one-read");
        }
    }
}

fn run_sync(w: &mut Tape, env: &EnvRef) -> RunResult {
    let seq = gen_seq(w)?;
    let all: Vec<u8> = seq.wire.concat();
    let mut src = SimSource::new(
        all,
        env,
        SrcCfg {
            short: true,
            interrupted: false,
            cuts: boundaries(&seq.wire),
            ..Default::default()
        },
    );
    let mut rb = BytesMut::new();
    let mut reads = Vec::new();
    for (i, want) in seq.pdus.iter().enumerate() {
        let before = src.handed;
        if !rb.is_empty() {
            env.probe("leftover-carried");
        }
        match read_pdu_from_wire(&mut src, &mut rb, seq.max_pdu, seq.strict) {
            Ok(got) => {
                check!(&got == want, "receive-sequence", "wire-sync:pdu-differs", "receive {} returned {} but {} was sent", i, got.short_description(), want.short_description());
            }
            Err(e) => fail!("receive-sequence", "wire-sync:receive-failed", "receive {} of {} failed: {} (sent {})", i, seq.pdus.len(), e, want.short_description()),
        }
        if src.handed > before {
            reads.push((before, src.handed - before));
        }
    }
    match read_pdu_from_wire(&mut src, &mut rb, seq.max_pdu, seq.strict) {
        Err(Error::ConnectionClosed { .. }) => {}
        Err(e) => fail!("receive-sequence", "wire-sync:end-not-closed", "receive after the last PDU: expected connection closed, got {}", e),
        Ok(p) => fail!("receive-sequence", "wire-sync:extra-pdu", "receive after the last PDU returned {}", p.short_description()),
    }
    note_probes(env, &seq.wire, &reads);
    Ok(())
}

fn run_async(w: &mut Tape, env: &EnvRef) -> RunResult {
    let seq = gen_seq(w)?;
    let all: Vec<u8> = seq.wire.concat();
    let mut src = SimSource::new(
        all,
        env,
        SrcCfg {
            short: true,
            pending: true,
            cuts: boundaries(&seq.wire),
            ..Default::default()
        },
    );
    let mut rb = BytesMut::new();
    let mut reads = Vec::new();
    for (i, want) in seq.pdus.iter().enumerate() {
        let before = src.handed;
        if !rb.is_empty() {
            env.probe("leftover-carried");
        }
        let r = {
            let fut = pin!(read_pdu_from_wire_async(&mut src, &mut rb, seq.max_pdu, seq.strict));
            drive(env, fut, 2_000_000)
        };
        match r {
            Ok(Ok(got)) => {
                check!(&got == want, "receive-sequence", "wire-async:pdu-differs", "receive {} returned {} but {} was sent", i, got.short_description(), want.short_description());
            }
            Ok(Err(e)) => fail!("receive-sequence", "wire-async:receive-failed", "receive {} of {} failed: {} (sent {})", i, seq.pdus.len(), e, want.short_description()),
            Err(DriveError::LostWakeup { polls }) => fail!("async-no-lost-wakeup", "wire-async:lost-wakeup", "receive returned Pending after {} polls with no registered waker", polls),
            Err(DriveError::Budget { polls }) => fail!("async-progress", "wire-async:poll-budget", "receive still pending after {} polls", polls),
        }
        if src.handed > before {
            reads.push((before, src.handed - before));
        }
    }
    let r = {
        let fut = pin!(read_pdu_from_wire_async(&mut src, &mut rb, seq.max_pdu, seq.strict));
        drive(env, fut, 2_000_000)
    };
    match r {
        Ok(Err(Error::ConnectionClosed { .. })) => {}
        Ok(Err(e)) => fail!("receive-sequence", "wire-async:end-not-closed", "receive after the last PDU: expected connection closed, got {}", e),
        Ok(Ok(p)) => fail!("receive-sequence", "wire-async:extra-pdu", "receive after the last PDU returned {}", p.short_description()),
        Err(_) => fail!("async-progress", "wire-async:end-hang", "receive after the last PDU does not complete"),
    }
    note_probes(env, &seq.wire, &reads);
    Ok(())
}

fn run(cfg: usize, w: &mut Tape, env: &EnvRef) -> RunResult {
    match cfg {
        0 => run_sync(w, env),
        1 => run_async(w, env),
        2 => run_establish(w, env, true, false),
        3 => run_establish(w, env, true, true),
        4 => run_establish(w, env, false, false),
        _ => run_establish(w, env, false, true),
    }
}

// ------------------------------------------------------------------ level 2: leftovers at establishment

use crate::nethelp::*;
use crate::simnet;
use dcmref::pdu::{RAssoc, RItem, RPdu, RSub};

const CTX_AS: &str = "1.2.840.10008.5.1.4.1.1.7";
const IVLE: &str = "1.2.840.10008.1.2";

fn small_pdus(w: &mut Tape) -> Result<(Vec<Pdu>, Vec<u8>), Violation> {
    let n = w.below(5);
    let opts = GenOpts {
        big: false,
        max_pdata: 600,
        unknown: true,
    };
    let mut pdus = Vec::new();
    let mut wire = Vec::new();
    for _ in 0..n {
        let p = gen_pdu(w, &opts);
        let r = to_ref(&p).map_err(|e| Violation::new("harness", "HARNESS-PANIC@gen", e))?;
        if let Ok(b) = rp::encode(&r) {
            if b.len() < 9000 {
                wire.extend_from_slice(&b);
                pdus.push(p);
            }
        }
    }
    Ok((pdus, wire))
}

fn assoc_rq() -> Vec<u8> {
    rp::encode(&RPdu::AssocRq(RAssoc {
        version: 1,
        called: b"ANY-SCP".to_vec(),
        calling: b"STUB-SCU".to_vec(),
        items: vec![
            RItem::AppCtx(b"1.2.840.10008.3.1.1.1".to_vec()),
            RItem::PcProposed {
                id: 1,
                subs: vec![RSub { ty: 0x30, data: CTX_AS.as_bytes().to_vec() }, RSub { ty: 0x40, data: IVLE.as_bytes().to_vec() }],
            },
            RItem::UserInfo(vec![rp::sub_max_length(16384), rp::sub_impl_class_uid(b"1.2.3.999")]),
        ],
    }))
    .unwrap()
}

fn assoc_ac() -> Vec<u8> {
    rp::encode(&RPdu::AssocAc(RAssoc {
        version: 1,
        called: b"ANY-SCP".to_vec(),
        calling: b"THIS-SCU".to_vec(),
        items: vec![
            RItem::AppCtx(b"1.2.840.10008.3.1.1.1".to_vec()),
            RItem::PcResult {
                id: 1,
                reason: 0,
                subs: vec![RSub { ty: 0x40, data: IVLE.as_bytes().to_vec() }],
            },
            RItem::UserInfo(vec![rp::sub_max_length(16384), rp::sub_impl_class_uid(b"1.2.3.999")]),
        ],
    }))
    .unwrap()
}

#[derive(Default)]
struct L2Result {
    established: bool,
    err: String,
    got: Vec<Pdu>,
    recv_errs: Vec<String>,
    end_closed: Option<bool>,
    end_desc: String,
}

fn run_establish(w: &mut Tape, env: &EnvRef, server: bool, is_async: bool) -> RunResult {
    use dicom_ul::association::{ClientAssociationOptions, ServerAssociationOptions};
    let (pdus, extra) = small_pdus(w)?;
    let n = pdus.len();
    let who = format!("establish-{}-{}", if server { "server" } else { "client" }, if is_async { "async" } else { "sync" });
    env.with(|e| e.obs.note_with(|| format!("{}: {} PDUs ({} bytes) sent right behind the association PDU: {:?}", who, n, extra.len(), pdus.iter().map(|p| p.short_description().to_string()).collect::<Vec<_>>())));
    simnet::begin(env, w.below(1 << 30) as u64);
    let conn = simnet::connection(if server { None } else { Some(104) });
    let res = shared(L2Result::default());
    let res2 = res.clone();
    if server {
        let fd = simnet::fd_of(conn.a);
        simnet::spawn_node("acceptor", is_async, move || {
            let opts = ServerAssociationOptions::new().with_abstract_syntax(CTX_AS).strict(false);
            if is_async {
                async_rt().block_on(async {
                    match opts.establish_async(tokio_stream(fd)).await {
                        Ok(mut a) => {
                            res2.lock().unwrap().established = true;
                            for _ in 0..n {
                                match a.receive().await {
                                    Ok(p) => res2.lock().unwrap().got.push(p),
                                    Err(e) => res2.lock().unwrap().recv_errs.push(format!("{}", e)),
                                }
                            }
                            let r = a.receive().await;
                            let mut g = res2.lock().unwrap();
                            g.end_closed = Some(matches!(r, Err(Error::ConnectionClosed { .. })));
                            g.end_desc = format!("{:?}", r.map(|p| p.short_description().to_string()).map_err(|e| e.to_string()));
                        }
                        Err(e) => res2.lock().unwrap().err = format!("{}", e),
                    }
                });
            } else {
                match opts.establish(std_stream(fd)) {
                    Ok(mut a) => {
                        res2.lock().unwrap().established = true;
                        for _ in 0..n {
                            match a.receive() {
                                Ok(p) => res2.lock().unwrap().got.push(p),
                                Err(e) => res2.lock().unwrap().recv_errs.push(format!("{}", e)),
                            }
                        }
                        let r = a.receive();
                        let mut g = res2.lock().unwrap();
                        g.end_closed = Some(matches!(r, Err(Error::ConnectionClosed { .. })));
                        g.end_desc = format!("{:?}", r.map(|p| p.short_description().to_string()).map_err(|e| e.to_string()));
                    }
                    Err(e) => res2.lock().unwrap().err = format!("{}", e),
                }
            }
        });
        let rfd = simnet::fd_of(conn.b);
        let mut bytes = assoc_rq();
        bytes.extend_from_slice(&extra);
        simnet::spawn_node("requestor-stub", false, move || {
            raw_send_all(rfd, &bytes);
            let mut buf = Vec::new();
            let _ = raw_recv_pdu(rfd, &mut buf); // the A-ASSOCIATE-AC
            raw_close(rfd);
        });
    } else {
        simnet::spawn_node("requestor", is_async, move || {
            let opts = ClientAssociationOptions::new().with_presentation_context(CTX_AS, vec![IVLE]).strict(false);
            if is_async {
                async_rt().block_on(async {
                    match opts.establish_async("10.0.0.1:104").await {
                        Ok(mut a) => {
                            res2.lock().unwrap().established = true;
                            for _ in 0..n {
                                match a.receive().await {
                                    Ok(p) => res2.lock().unwrap().got.push(p),
                                    Err(e) => res2.lock().unwrap().recv_errs.push(format!("{}", e)),
                                }
                            }
                            let r = a.receive().await;
                            let mut g = res2.lock().unwrap();
                            g.end_closed = Some(matches!(r, Err(Error::ConnectionClosed { .. })));
                            g.end_desc = format!("{:?}", r.map(|p| p.short_description().to_string()).map_err(|e| e.to_string()));
                        }
                        Err(e) => res2.lock().unwrap().err = format!("{}", e),
                    }
                });
            } else {
                match opts.establish("10.0.0.1:104") {
                    Ok(mut a) => {
                        res2.lock().unwrap().established = true;
                        for _ in 0..n {
                            match a.receive() {
                                Ok(p) => res2.lock().unwrap().got.push(p),
                                Err(e) => res2.lock().unwrap().recv_errs.push(format!("{}", e)),
                            }
                        }
                        let r = a.receive();
                        let mut g = res2.lock().unwrap();
                        g.end_closed = Some(matches!(r, Err(Error::ConnectionClosed { .. })));
                        g.end_desc = format!("{:?}", r.map(|p| p.short_description().to_string()).map_err(|e| e.to_string()));
                    }
                    Err(e) => res2.lock().unwrap().err = format!("{}", e),
                }
            }
        });
        let afd = simnet::fd_of(conn.a);
        let mut bytes = assoc_ac();
        bytes.extend_from_slice(&extra);
        simnet::spawn_node("acceptor-stub", false, move || {
            let mut buf = Vec::new();
            let _ = raw_recv_pdu(afd, &mut buf); // the A-ASSOCIATE-RQ
            raw_send_all(afd, &bytes);
            raw_close(afd);
        });
    }
    let rep = simnet::run(40_000);
    let end = simnet::end();
    if end.needs_restart {
        simnet::request_restart();
    }
    for nd in &end.nodes {
        if let Some(p) = &nd.panicked {
            fail!("no-panic", format!("{}:panic", who), "node {} panicked: {}", nd.name, p);
        }
    }
    check!(rep.finished, "terminates", format!("{}:stuck", who), "nodes did not finish: {:?}", rep.stuck);
    let real_ep = if server { conn.a } else { conn.b };
    // did establish() return while bytes of the following PDUs had already been read from the socket?
    let assoc_len = if server { assoc_rq().len() } else { assoc_ac().len() };
    if end.eps[real_ep].recv_marks.iter().any(|(_, total)| *total > assoc_len) && n > 0 {
        let first_over = end.eps[real_ep].recv_marks.iter().find(|(_, t)| *t >= assoc_len).map(|(_, t)| *t).unwrap_or(0);
        if first_over > assoc_len {
            env.probe("leftover-at-establishment");
        }
    }
    let g = res.lock().unwrap();
    check!(g.established, "establishes", format!("{}:establish-failed", who), "establishment failed although the peer's association PDU is valid: {}", g.err);
    check!(g.recv_errs.is_empty(), "receive-sequence", format!("{}:receive-failed", who), "receive after establishment failed: {:?} ({} of {} PDUs received)", g.recv_errs, g.got.len(), n);
    check!(g.got.len() == n, "receive-sequence", format!("{}:count", who), "{} PDUs received, {} were sent behind the association PDU", g.got.len(), n);
    for (i, (a, b)) in g.got.iter().zip(pdus.iter()).enumerate() {
        check!(a == b, "receive-sequence", format!("{}:pdu-differs", who), "receive {} returned {} but {} was sent", i, a.short_description(), b.short_description());
    }
    check!(g.end_closed == Some(true), "receive-sequence", format!("{}:end-not-closed", who), "after the last PDU and the peer's close: {}", g.end_desc);
    Ok(())
}
