//! C25 — PDUs are encoded and decoded losslessly with exact framing; a
//! connection lost at any byte offset reads as "incomplete".

use crate::convert::{ref_eq, short, to_ref};
use crate::framework::CheckDef;
use crate::pdugen::{gen_pdata, gen_pdu, GenOpts};
use crate::simio::*;
use bytes::BytesMut;
use dcmref::pdu as rp;
use dicom_ul::association::{read_pdu_from_wire, Error};
use dicom_ul::pdu::{read_pdu, write_pdu, Pdu, ReadError};
use simcore::{check, fail, RunResult, Tape, Violation};

pub fn def() -> CheckDef {
    CheckDef {
        id: "C25",
        level: "fault_enumeration",
        configs: &["roundtrip", "cut-everywhere", "oversize", "strict-max"],
        quick_runs: 400_000,
        thorough_runs: 6_000_000,
        run,
        rule: "one run = one generated PDU value (every variant, every user-information sub-item kind, 0-128 presentation \
               contexts, sub-items up to 70 kB). roundtrip: write_pdu output is parsed by the independent PS3.8 parser (all \
               length fields exact, content equal) and read back by read_pdu with trailing bytes untouched. cut-everywhere: \
               the connection is lost after EVERY byte offset of the encoding (exhaustive up to 8 KiB, 512 sampled offsets \
               above, always the last 16): read_pdu(prefix) must be Ok(None) and read_pdu_from_wire over a source that ends \
               there (tape-chosen segmentation) must report 'connection closed'. oversize: content that does not fit a 16-bit \
               item length must make write_pdu fail. strict-max: PDU length vs maximum at the boundary. distinct = distinct \
               (configuration, PDU shape, size classes, segmentation signature); non-trivial = a cut or short read fired",
        real: &["dicom_ul::pdu::write_pdu", "dicom_ul::pdu::read_pdu", "dicom_ul::association::read_pdu_from_wire"],
        stub: &["transport (SimSource ending at the cut)", "independent PS3.8 encoder/parser (oracle)"],
        assumptions: &["AE titles compare modulo space padding; strings are within their documented repertoires (no edge whitespace, <=16 chars for AE titles)"],
        required_probes: &["item-over-64k", "userinfo-over-64k", "cut-in-header", "cut-in-body", "cut-exhaustive", "cut-sampled"],
        net: false,
    }
}

fn harness(e: String) -> Violation {
    Violation::new("harness", "HARNESS-PANIC@c25", e)
}

fn pdu_kind(p: &Pdu) -> &'static str {
    match p {
        Pdu::Unknown { .. } => "Unknown",
        Pdu::AssociationRQ(_) => "AssociationRQ",
        Pdu::AssociationAC(_) => "AssociationAC",
        Pdu::AssociationRJ(_) => "AssociationRJ",
        Pdu::PData { .. } => "PData",
        Pdu::ReleaseRQ => "ReleaseRQ",
        Pdu::ReleaseRP => "ReleaseRP",
        Pdu::AbortRQ { .. } => "AbortRQ",
    }
}

fn encode_real(p: &Pdu) -> Result<Vec<u8>, String> {
    let mut v = Vec::new();
    write_pdu(&mut v, p).map_err(|e| format!("{}", e))?;
    Ok(v)
}

fn run_roundtrip(w: &mut Tape, env: &EnvRef) -> RunResult {
    let p = gen_pdu(
        w,
        &GenOpts {
            big: false,
            max_pdata: 30_000,
            unknown: true,
        },
    );
    let kind = pdu_kind(&p);
    let expect = to_ref(&p).map_err(harness)?;
    let expect_bytes = match rp::encode(&expect) {
        Ok(b) => b,
        Err(_) => return Ok(()), // belongs to the oversize configuration
    };
    let bytes = match encode_real(&p) {
        Ok(b) => b,
        Err(e) => fail!("pdu-write", format!("roundtrip:write-failed:{}", kind), "write_pdu failed for a well-formed {}: {}", kind, e),
    };
    env.ev("encoded", bytes.len() as u64, 0);
    // (a) independent parser: every length field exact, content equal
    match rp::parse_exact(&bytes) {
        Ok(r) => check!(
            ref_eq(&r, &expect),
            "pdu-wire-content",
            format!("roundtrip:wire-content:{}", kind),
            "write_pdu output parses (independent parser) to {} but the value is {}",
            short(&r),
            short(&expect)
        ),
        Err(e) => fail!("pdu-wire-lengths", format!("roundtrip:wire-lengths:{}", kind), "write_pdu output for {} is not structurally valid PS3.8: {}", kind, e),
    }
    check!(bytes.len() == expect_bytes.len(), "pdu-wire-lengths", format!("roundtrip:wire-size:{}", kind), "write_pdu emitted {} bytes, reference encoding has {}", bytes.len(), expect_bytes.len());
    // (b) read back, consuming exactly those bytes
    let trailing = w.below(3) as usize * 5;
    let mut all = bytes.clone();
    all.extend(std::iter::repeat(0xEE).take(trailing));
    let strict = w.chance(1, 2);
    let max = ((bytes.len() - 6) as u32).max(1018);
    let mut cur = &all[..];
    match read_pdu(&mut cur, max, strict) {
        Ok(Some(q)) => {
            check!(q == p, "pdu-roundtrip", format!("roundtrip:value-differs:{}", kind), "read back {:?} differs from written {:?}", q.short_description().to_string(), p.short_description().to_string());
            check!(cur.len() == trailing, "pdu-consumes-exactly", format!("roundtrip:consumed:{}", kind), "read_pdu left {} bytes, {} trailing bytes were appended", cur.len(), trailing);
        }
        Ok(None) => fail!("pdu-roundtrip", format!("roundtrip:incomplete:{}", kind), "read_pdu reports the complete encoding of {} as incomplete", kind),
        Err(e) => fail!("pdu-roundtrip", format!("roundtrip:read-failed:{}", kind), "read_pdu failed on write_pdu output of {}: {}", kind, e),
    }
    Ok(())
}

fn run_cuts(w: &mut Tape, env: &EnvRef) -> RunResult {
    let max_pdata = if w.chance(1, 8) { 30_000 } else { 3_000 };
    let p = gen_pdu(
        w,
        &GenOpts {
            big: false,
            max_pdata,
            unknown: true,
        },
    );
    let kind = pdu_kind(&p);
    let bytes = match encode_real(&p) {
        Ok(b) => b,
        Err(_) => return Ok(()),
    };
    let n = bytes.len();
    let max = ((n - 6) as u32).max(1018);
    let strict = w.chance(1, 2);
    let mut cuts: Vec<usize> = Vec::new();
    if n <= 8192 {
        cuts.extend(0..n);
        env.probe("cut-exhaustive");
    } else {
        cuts.extend(0..64);
        cuts.extend(n - 16..n);
        for _ in 0..432 {
            cuts.push(w.below(n as u32) as usize);
        }
        env.probe("cut-sampled");
    }
    for &k in &cuts {
        if k < 6 {
            env.probe("cut-in-header");
        } else {
            env.probe("cut-in-body");
        }
        env.with(|e| e.obs.fault("connection-lost-at-offset"));
        match read_pdu(&bytes[..k], max, strict) {
            Ok(None) => {}
            Ok(Some(q)) => fail!("pdu-prefix-incomplete", format!("cut:prefix-read-as-pdu:{}", kind), "prefix of {} of {} bytes of a {} read as a complete PDU: {}", k, n, kind, q.short_description()),
            Err(e) => fail!("pdu-prefix-incomplete", format!("cut:prefix-error:{}", kind), "prefix of {} of {} bytes of a {} read as an error instead of incomplete: {}", k, n, kind, e),
        }
    }
    // the same through the wire receiver, connection closing at the cut
    let wire_cuts: Vec<usize> = if n <= 64 {
        (0..n).collect()
    } else {
        let mut v = vec![0, 1, 2, 5, 6, 7, n - 1];
        for _ in 0..6 {
            v.push(w.below(n as u32) as usize);
        }
        v
    };
    for k in wire_cuts {
        let mut src = SimSource::new(
            bytes[..k].to_vec(),
            env,
            SrcCfg {
                short: true,
                ..Default::default()
            },
        );
        let mut rb = BytesMut::new();
        match read_pdu_from_wire(&mut src, &mut rb, max, strict) {
            Err(Error::ConnectionClosed { .. }) => {}
            Err(e) => fail!("pdu-prefix-incomplete", format!("cut:wire-other-error:{}", kind), "connection lost after {} of {} bytes of a {}: receiver reported {} instead of connection closed", k, n, kind, e),
            Ok(q) => fail!("pdu-prefix-incomplete", format!("cut:wire-returned-pdu:{}", kind), "connection lost after {} of {} bytes of a {}: receiver returned {}", k, n, kind, q.short_description()),
        }
    }
    Ok(())
}

fn run_oversize(w: &mut Tape, env: &EnvRef) -> RunResult {
    let p = gen_pdu(
        w,
        &GenOpts {
            big: true,
            max_pdata: 100,
            unknown: false,
        },
    );
    let kind = pdu_kind(&p);
    let expect = to_ref(&p);
    let expressible = match &expect {
        Ok(r) => rp::encode(r).is_ok(),
        Err(_) => false,
    };
    if !expressible {
        match &expect {
            Err(_) => env.probe("item-over-64k"),
            Ok(_) => env.probe("userinfo-over-64k"),
        }
    }
    let real = encode_real(&p);
    match (expressible, real) {
        (true, Ok(bytes)) => {
            let expect = expect.unwrap();
            match rp::parse_exact(&bytes) {
                Ok(r) => check!(ref_eq(&r, &expect), "pdu-wire-content", format!("oversize:wire-content:{}", kind), "large but expressible {}: independent parse differs from the value", kind),
                Err(e) => fail!("pdu-wire-lengths", format!("oversize:wire-lengths:{}", kind), "large but expressible {}: output not structurally valid: {}", kind, e),
            }
            let max = ((bytes.len() - 6) as u32).max(1018);
            match read_pdu(&bytes[..], max, false) {
                Ok(Some(q)) => check!(q == p, "pdu-roundtrip", format!("oversize:value-differs:{}", kind), "large but expressible {} does not read back equal", kind),
                other => fail!("pdu-roundtrip", format!("oversize:read-failed:{}", kind), "large but expressible {} does not read back: {:?}", kind, other.map(|o| o.map(|p| p.short_description().to_string()))),
            }
        }
        (true, Err(e)) => fail!("pdu-write", format!("oversize:write-failed:{}", kind), "write_pdu failed for an expressible {}: {}", kind, e),
        (false, Err(_)) => {}
        (false, Ok(bytes)) => {
            // write_pdu claims success although some item content exceeds its 16-bit length field
            let why = match &expect {
                Err(e) => e.clone(),
                Ok(r) => rp::encode(r).err().unwrap_or_default(),
            };
            let verdict = match rp::parse_exact(&bytes) {
                Ok(r) => match &expect {
                    Ok(x) if ref_eq(&r, x) => "yet parses to the same content".to_string(),
                    _ => "and the emitted bytes parse to different content (item length truncated)".to_string(),
                },
                Err(e) => format!("and the emitted bytes are not a valid PDU: {}", e),
            };
            fail!("pdu-oversize-rejected", format!("oversize:accepted:{}", kind), "write_pdu returned Ok for a {} whose content cannot be expressed ({}) {}", kind, why, verdict);
        }
    }
    Ok(())
}

fn run_strict(w: &mut Tape, env: &EnvRef) -> RunResult {
    // a P-DATA PDU whose PDU-length sits around the receiver's maximum
    let max = 1018 + w.below(3000);
    let delta = w.below(5) as i64 - 2; // -2..=2
    let body = (max as i64 + delta).max(6) as usize;
    let pdv = body - 6;
    let _ = gen_pdata; // (generator kept for symmetry)
    let p = Pdu::PData {
        data: vec![dicom_ul::pdu::PDataValue {
            presentation_context_id: 1,
            value_type: dicom_ul::pdu::PDataValueType::Data,
            is_last: true,
            data: simcore::pattern_bytes(1, pdv),
        }],
    };
    let bytes = encode_real(&p).map_err(harness)?;
    let len = (bytes.len() - 6) as u32;
    env.ev("strict-case", len as u64, max as u64);
    match read_pdu(&bytes[..], max, true) {
        Ok(Some(q)) => {
            check!(len <= max, "pdu-strict-max", "strict:accepted-too-long", "strict mode accepted a PDU of length {} > maximum {}", len, max);
            check!(q == p, "pdu-roundtrip", "strict:value-differs", "strict read differs");
        }
        Err(ReadError::PduTooLarge { .. }) => {
            check!(len > max, "pdu-strict-max", "strict:rejected-fitting", "strict mode rejected a PDU of length {} <= maximum {}", len, max);
        }
        Ok(None) => fail!("pdu-strict-max", "strict:incomplete", "complete PDU read as incomplete"),
        Err(e) => fail!("pdu-strict-max", "strict:other-error", "unexpected error {}", e),
    }
    // the header alone is enough to reject in strict mode; never a different PDU
    if len > max {
        match read_pdu(&bytes[..6], max, true) {
            Err(ReadError::PduTooLarge { .. }) | Ok(None) => {}
            other => fail!("pdu-strict-max", "strict:header-only", "header of an over-long PDU: {:?}", other.map(|o| o.map(|p| p.short_description().to_string()))),
        }
    }
    // non-strict mode reads it regardless
    match read_pdu(&bytes[..], max, false) {
        Ok(Some(q)) => check!(q == p, "pdu-roundtrip", "strict:lenient-differs", "non-strict read differs"),
        other => fail!("pdu-roundtrip", "strict:lenient-failed", "non-strict read of a PDU of length {} (max {}) failed: {:?}", len, max, other.map(|o| o.map(|p| p.short_description().to_string()))),
    }
    Ok(())
}

fn run(cfg: usize, w: &mut Tape, env: &EnvRef) -> RunResult {
    match cfg {
        0 => run_roundtrip(w, env),
        1 => run_cuts(w, env),
        2 => run_oversize(w, env),
        _ => run_strict(w, env),
    }
}
