//! C01, C02, C04 — the fault-free configuration of the data-set transfer:
//! API object -> real writer -> simulated sink (short writes, EINTR) ->
//! simulated source (short reads) -> real reader, judged against the
//! independent PS3.5 encoder/parser.

use crate::dsbuild::*;
use crate::framework::CheckDef;
use crate::simio::*;
use dcmref::ds::{self, GenCfg, Syntax};
use dicom_core::header::Header;
use dicom_core::{DataElementHeader, Length, Tag, VR};
use dicom_encoding::text::SpecificCharacterSet;
use dicom_object::{FileMetaTableBuilder, InMemDicomObject};
use dicom_parser::dataset::write::{DataSetWriterOptions, ExplicitLengthSqItemStrategy};
use dicom_parser::stateful::encode::StatefulEncoder;
use simcore::{check, fail, RunResult, Tape, Violation};
use std::io::Read;

const SYNS: [Syntax; 3] = [Syntax::ImplicitLE, Syntax::ExplicitLE, Syntax::ExplicitBE];

fn seg_sink(env: &EnvRef) -> SimSink {
    SimSink::new(
        env,
        SinkCfg {
            short: true,
            interrupted: true,
            ..Default::default()
        },
    )
}

fn seg_source(data: Vec<u8>, env: &EnvRef) -> SimSource {
    SimSource::new(
        data,
        env,
        SrcCfg {
            short: true,
            interrupted: true,
            ..Default::default()
        },
    )
}

pub fn inflate(b: &[u8]) -> Result<Vec<u8>, String> {
    let mut d = flate2::read::DeflateDecoder::new(b);
    let mut out = Vec::new();
    d.read_to_end(&mut out).map_err(|e| format!("inflate: {}", e))?;
    Ok(out)
}

pub fn deflate(b: &[u8]) -> Vec<u8> {
    use std::io::Write;
    let mut e = flate2::write::DeflateEncoder::new(Vec::new(), flate2::Compression::fast());
    e.write_all(b).unwrap();
    e.finish().unwrap()
}

fn harness(e: String) -> Violation {
    Violation::new("harness", "HARNESS-PANIC@dsio", e)
}

fn first_diff(a: &[u8], b: &[u8]) -> usize {
    a.iter().zip(b.iter()).position(|(x, y)| x != y).unwrap_or(a.len().min(b.len()))
}

// ------------------------------------------------------------------ C01

pub fn def_c01() -> CheckDef {
    CheckDef {
        id: "C01",
        level: "exploration",
        configs: &["implicit-le", "explicit-le", "explicit-be", "deflated-explicit-le"],
        quick_runs: 120_000,
        thorough_runs: 3_000_000,
        run: run_c01,
        rule: "one run = one abstract data set drawn from the seed by the independent generator (standard, private and unknown \
               attributes of all 33 non-SQ VRs with empty/single/multi values of odd and even length, sequences to depth 4 with \
               defined or undefined sequence length, native or encapsulated pixel data), built through the public API, written by \
               the real writer (strategy SetUndefined or NoChange from the seed) into a simulated sink with seed-chosen short \
               writes and EINTR, read back by the real reader through a simulated source with seed-chosen short reads and EINTR. \
               Oracles: writing succeeds; the written bytes parse (independent PS3.5 parser) to the same tree as the independent \
               canonical encoding of the same abstract data set; the real reader yields equal objects for written and canonical \
               bytes. distinct = distinct hashed sequences of environment event kinds with log2 size classes; non-trivial = a \
               short transfer or EINTR fired",
        real: &["InMemDicomObject::write_dataset_with_ts / _with_ts_options (DataSetWriter, StatefulEncoder, encoders)", "deflate adapter (flate2)", "InMemDicomObject::read_dataset_with_ts (DataSetReader, StatefulDecoder, build_object)"],
        stub: &["byte sink and source (SimSink/SimSource)", "independent PS3.5 generator, encoder and parser (oracle)"],
        assumptions: &["fault-free configuration: the transport may segment and interrupt but never fails (failures are C34)", "objects built through the public API have undefined-length items (the API cannot express a defined item length)", "floating point values are finite (NaN != NaN would defeat object equality)"],
        required_probes: &["nested-depth-3plus", "encapsulated-pixel-data", "defined-length-sequence", "strategy-nochange", "odd-length-value", "typed-date-time-number-value", "utf8-text", "latin1-text"],
        net: false,
    }
}

fn gen_model(w: &mut Tape, syn: Syntax, all_undefined: bool) -> Vec<ds::Elem> {
    let cs = w.weighted(&[5, 2, 2, 1, 1]);
    let cfg = GenCfg {
        encapsulated: syn == Syntax::ExplicitLE,
        all_undefined,
        latin1: cs == 1,
        utf8: cs == 2,
        other_cs: if cs >= 3 { cs as u8 } else { 0 },
        nested_charset: true,
        ..Default::default()
    };
    let s = ds::gen_dataset(w, &cfg);
    restrict_to(&s, syn)
}

fn probes_for(env: &EnvRef, m: &[ds::Elem]) {
    if ds::max_depth(m) >= 3 {
        env.probe("nested-depth-3plus");
    }
    if m.iter().any(|e| matches!(e.val, ds::Val::Frags { .. })) {
        env.probe("encapsulated-pixel-data");
    }
    if ds::has_defined_lengths(m) {
        env.probe("defined-length-sequence");
    }
    fn odd(m: &[ds::Elem]) -> bool {
        m.iter().any(|e| match &e.val {
            ds::Val::Prim(ds::Prim::Text(b)) | ds::Val::Prim(ds::Prim::Bytes(b)) => b.len() % 2 == 1,
            ds::Val::Seq { items, .. } => items.iter().any(|i| odd(&i.elems)),
            _ => false,
        })
    }
    if odd(m) {
        env.probe("odd-length-value");
    }
    fn non_ascii(m: &[ds::Elem]) -> bool {
        m.iter().any(|e| match &e.val {
            ds::Val::Prim(ds::Prim::Text(b)) => !b.is_ascii(),
            ds::Val::Seq { items, .. } => items.iter().any(|i| non_ascii(&i.elems)),
            _ => false,
        })
    }
    fn nested_cs(m: &[ds::Elem], depth: u32) -> bool {
        m.iter().any(|e| (depth > 0 && e.tag == (0x0008, 0x0005)) || matches!(&e.val, ds::Val::Seq { items, .. } if items.iter().any(|i| nested_cs(&i.elems, depth + 1))))
    }
    if nested_cs(m, 0) {
        env.probe("nested-character-set");
    }
    if non_ascii(m) {
        match m.iter().find(|e| e.tag == (0x0008, 0x0005)).map(|e| &e.val) {
            Some(ds::Val::Prim(ds::Prim::Text(b))) if b == b"ISO_IR 192" => env.probe("utf8-text"),
            Some(ds::Val::Prim(ds::Prim::Text(b))) if b == b"ISO_IR 144" => env.probe("cyrillic-text"),
            Some(ds::Val::Prim(ds::Prim::Text(b))) if b == b"GB18030" => env.probe("gb18030-text"),
            _ => env.probe("latin1-text"),
        }
    }
}

fn run_c01(cfg: usize, w: &mut Tape, env: &EnvRef) -> RunResult {
    let deflated = cfg == 3;
    let syn = if deflated { Syntax::ExplicitLE } else { SYNS[cfg] };
    let model = model_items_undef(&gen_model(w, syn, false));
    probes_for(env, &model);
    let nochange = !deflated && w.chance(1, 2);
    if nochange {
        env.probe("strategy-nochange");
    }
    env.with(|e| e.obs.note_with(|| format!("workload: {} {} {}", syn.name(), if nochange { "NoChange" } else { "SetUndefined" }, describe(&model))));
    let who = if deflated { "deflated" } else { syn.name() };
    let typed_before = TYPED_BUILT.with(|c| c.get());
    let obj = build_object(&model, syn);
    if TYPED_BUILT.with(|c| c.get()) > typed_before {
        env.probe("typed-date-time-number-value");
    }
    let ts = if deflated { ts_deflated() } else { ts_of(syn) };
    let mut sink = seg_sink(env);
    if deflated {
        // flate2 does not retry EINTR and dicom-rs finishes the deflate stream only
        // in Drop: that combination is judged under C34, not here
        sink.cfg.interrupted = false;
    }
    let r = if deflated {
        obj.write_dataset_with_ts(&mut sink, &ts)
    } else {
        let opts = DataSetWriterOptions::default().explicit_length_sq_item_strategy(if nochange {
            ExplicitLengthSqItemStrategy::NoChange
        } else {
            ExplicitLengthSqItemStrategy::SetUndefined
        });
        obj.write_dataset_with_ts_options(&mut sink, &ts, opts)
    };
    if let Err(e) = r {
        fail!("write-succeeds", format!("c01:{}:write-failed", who), "writing a well-formed data set failed: {} [{}]", e, describe(&model));
    }
    let written = if deflated { inflate(&sink.data).map_err(|e| Violation::new("written-parses", format!("c01:{}:bad-deflate", who), e))? } else { sink.data.clone() };
    let (canon, _) = ds::encode(&model, syn, if nochange { None } else { Some(true) }).map_err(harness)?;
    let lk = Lookups::of(&model);
    let pw = match lk.parse(&written, syn) {
        Ok(p) => p,
        Err(e) => fail!("written-parses", format!("c01:{}:written-invalid", who), "written stream is not valid PS3.5: {} [{}]", e, describe(&model)),
    };
    let pc = lk.parse(&canon, syn).map_err(|e| harness(format!("canonical stream does not parse: {}", e)))?;
    check!(
        pw == pc,
        "written-equals-model",
        format!("c01:{}:content-differs", who),
        "independent parse of the written bytes differs from the abstract data set (first byte difference to the canonical encoding at {} of {}/{}) [{}]",
        first_diff(&written, &canon),
        written.len(),
        canon.len(),
        describe(&model)
    );
    if written == canon {
        env.probe("bytes-identical-to-canonical");
    }
    // read back through a segmented source
    let src_stream = if deflated { sink.data.clone() } else { written.clone() };
    let back = match InMemDicomObject::read_dataset_with_ts(seg_source(src_stream, env), &ts) {
        Ok(o) => o,
        Err(e) => fail!("roundtrip", format!("c01:{}:readback-failed", who), "reading back what was written failed: {} [{}]", e, describe(&model)),
    };
    let canon_stream = if deflated { deflate(&canon) } else { canon.clone() };
    let reference = match InMemDicomObject::read_dataset_with_ts(seg_source(canon_stream, env), &ts) {
        Ok(o) => o,
        Err(e) => fail!("roundtrip", format!("c01:{}:canonical-read-failed", who), "reading the canonical encoding failed: {} [{}]", e, describe(&model)),
    };
    if let Some(d) = obj_diff(&back, &reference, "") {
        fail!("roundtrip", format!("c01:{}:roundtrip-differs", who), "object read back differs from the object read from the canonical encoding: {} [{}]", d, describe(&model));
    }
    if let Some(d) = shape_diff(&back, &model, "") {
        fail!("roundtrip", format!("c01:{}:structure-lost", who), "object read back has a different structure than the data set written: {} [{}]", d, describe(&model));
    }
    Ok(())
}

// ------------------------------------------------------------------ C02

pub fn def_c02() -> CheckDef {
    CheckDef {
        id: "C02",
        level: "exploration",
        configs: &["implicit-le", "explicit-le", "explicit-be"],
        quick_runs: 120_000,
        thorough_runs: 3_000_000,
        run: run_c02,
        rule: "one run = one canonical stream produced by the independent PS3.5 encoder (ascending unique tags, even lengths, \
               sequences and items with defined or undefined lengths as drawn from the seed, encapsulated pixel data in Explicit \
               LE), read by the real reader through a simulated source (seed-chosen short reads, EINTR) and written back by the \
               real writer with the NoChange strategy through a simulated sink (short writes, EINTR): bytes out must equal bytes \
               in; when every container is undefined-length the default writer settings must reproduce it too. distinct = \
               distinct hashed environment event-kind sequences; non-trivial = a short transfer or EINTR fired",
        real: &["InMemDicomObject::read_dataset_with_ts", "InMemDicomObject::write_dataset_with_ts_options"],
        stub: &["byte source and sink", "independent canonical encoder"],
        assumptions: &["fault-free configuration (segmentation and EINTR only)"],
        required_probes: &["defined-length-item", "all-undefined-default-writer", "nested-depth-3plus"],
        net: false,
    }
}

fn run_c02(cfg: usize, w: &mut Tape, env: &EnvRef) -> RunResult {
    let syn = SYNS[cfg];
    let all_undef = w.chance(1, 3);
    let model = gen_model(w, syn, all_undef);
    if ds::max_depth(&model) >= 3 {
        env.probe("nested-depth-3plus");
    }
    if ds::has_defined_lengths(&model) {
        env.probe("defined-length-item");
    }
    env.with(|e| e.obs.note_with(|| format!("workload: {} {}", syn.name(), describe(&model))));
    let (canon, _) = ds::encode(&model, syn, None).map_err(harness)?;
    let ts = ts_of(syn);
    let obj = match InMemDicomObject::read_dataset_with_ts(seg_source(canon.clone(), env), &ts) {
        Ok(o) => o,
        Err(e) => fail!("canonical-reads", format!("c02:{}:read-failed", syn.name()), "reading a canonical stream failed: {} [{}]", e, describe(&model)),
    };
    let mut modes = vec![(ExplicitLengthSqItemStrategy::NoChange, "NoChange")];
    if !ds::has_defined_lengths(&model) {
        modes.push((ExplicitLengthSqItemStrategy::SetUndefined, "default"));
        env.probe("all-undefined-default-writer");
    }
    for (strategy, name) in modes {
        let mut sink = seg_sink(env);
        let opts = DataSetWriterOptions::default().explicit_length_sq_item_strategy(strategy);
        if let Err(e) = obj.write_dataset_with_ts_options(&mut sink, &ts, opts) {
            fail!("rewrite-succeeds", format!("c02:{}:{}:write-failed", syn.name(), name), "rewriting failed: {} [{}]", e, describe(&model));
        }
        check!(
            sink.data == canon,
            "rewrite-identical",
            format!("c02:{}:{}:bytes-differ", syn.name(), name),
            "rewritten stream differs from the canonical input at byte {} (out {} bytes, in {} bytes) [{}]",
            first_diff(&sink.data, &canon),
            sink.data.len(),
            canon.len(),
            describe(&model)
        );
    }
    Ok(())
}

// ------------------------------------------------------------------ C04

pub fn def_c04() -> CheckDef {
    CheckDef {
        id: "C04",
        level: "exploration",
        configs: &["dataset", "file", "encoder-counts"],
        quick_runs: 120_000,
        thorough_runs: 3_000_000,
        run: run_c04,
        rule: "dataset: generated data sets written in every writable syntax and strategy into a simulated sink (short writes, \
               EINTR); every byte the sink accepted is parsed by the independent PS3.5 parser (even exact lengths, containers \
               end where declared, delimiters, VR-specific padding byte, fixed-width multiples). file: complete files via \
               FileDicomObject::write_all; meta group length must cover exactly group 0002. encoder-counts: a seed-drawn \
               sequence of element headers, primitive values, item headers and delimiters fed to StatefulEncoder over the sink; \
               bytes_written() must equal the sink's own count after every call. distinct = distinct hashed environment event \
               sequences; non-trivial = a short write or EINTR fired",
        real: &["DataSetWriter", "StatefulEncoder (bytes_written, padding)", "BasicEncode/Encode primitive and header encoders", "FileDicomObject::write_all, FileMetaTable::write"],
        stub: &["byte sink (SimSink)", "independent PS3.5 parser"],
        assumptions: &["fault-free configuration (segmentation and EINTR only)"],
        required_probes: &["file-with-meta", "encoder-odd-value", "encoder-item-header"],
        net: false,
    }
}

fn run_c04(cfg: usize, w: &mut Tape, env: &EnvRef) -> RunResult {
    match cfg {
        0 => {
            let si = w.below(4) as usize;
            let deflated = si == 3;
            let syn = if deflated { Syntax::ExplicitLE } else { SYNS[si] };
            let model = model_items_undef(&gen_model(w, syn, false));
            let nochange = !deflated && w.chance(1, 2);
            let obj = build_object(&model, syn);
            let ts = if deflated { ts_deflated() } else { ts_of(syn) };
            let who = if deflated { "deflated" } else { syn.name() };
            let mut sink = seg_sink(env);
            if deflated {
                sink.cfg.interrupted = false;
            }
            let r = if deflated {
                obj.write_dataset_with_ts(&mut sink, &ts)
            } else {
                obj.write_dataset_with_ts_options(
                    &mut sink,
                    &ts,
                    DataSetWriterOptions::default().explicit_length_sq_item_strategy(if nochange {
                        ExplicitLengthSqItemStrategy::NoChange
                    } else {
                        ExplicitLengthSqItemStrategy::SetUndefined
                    }),
                )
            };
            if r.is_err() {
                return Ok(()); // judged by C01
            }
            let written = if deflated {
                match inflate(&sink.data) {
                    Ok(b) => b,
                    Err(e) => fail!("structure", "c04:deflated:bad-deflate", "{}", e),
                }
            } else {
                sink.data.clone()
            };
            if let Err(e) = Lookups::of(&model).parse(&written, syn) {
                fail!("structure", format!("c04:{}:invalid", who), "written data set is not structurally valid PS3.5: {} [{}]", e, describe(&model));
            }
            Ok(())
        }
        1 => {
            let syn = SYNS[w.below(3) as usize];
            let model = model_items_undef(&gen_model(w, syn, false));
            let obj = build_object(&model, syn);
            let uid_odd = w.chance(1, 2);
            let meta = if w.chance(1, 2) {
                // every optional attribute of the group by the seed (the table generator of C09)
                crate::checks::c09::gen_table(w, env, syn.uid())?
            } else {
                FileMetaTableBuilder::new()
                    .media_storage_sop_class_uid(if uid_odd { "1.2.840.10008.5.1.4.1.1.7" } else { "1.2.840.10008.5.1.4.1.1.2" })
                    .media_storage_sop_instance_uid(if w.chance(1, 2) { "1.2.3.4.5" } else { "1.2.3.4.55" })
                    .transfer_syntax(syn.uid())
                    .build()
                    .map_err(|e| harness(format!("meta: {}", e)))?
            };
            let file = obj.with_exact_meta(meta);
            let mut sink = seg_sink(env);
            if let Err(e) = file.write_all(&mut sink) {
                fail!("write-succeeds", format!("c04:file:{}:write-failed", syn.name()), "write_all failed: {}", e);
            }
            env.probe("file-with-meta");
            let (_meta, off) = match ds::parse_file_meta(&sink.data) {
                Ok(x) => x,
                Err(e) => fail!("structure", format!("c04:file:{}:meta-invalid", syn.name()), "file header/meta group invalid: {}", e),
            };
            check!(sink.data.len() >= 132 && sink.data[..128].iter().all(|b| *b == 0), "structure", "c04:file:preamble", "file does not start with a 128-byte zero preamble");
            if let Err(e) = Lookups::of(&model).parse(&sink.data[off..], syn) {
                fail!("structure", format!("c04:file:{}:dataset-invalid", syn.name()), "data set of the written file is not valid PS3.5: {} [{}]", e, describe(&model));
            }
            Ok(())
        }
        _ => {
            let syn = SYNS[w.below(3) as usize];
            let ts = ts_of(syn);
            let mut sink = seg_sink(env);
            let accepted = sink.count.clone();
            {
                let encoder = ts.encoder_for::<&mut SimSink>().ok_or_else(|| harness("no encoder".into()))?;
                let mut enc = StatefulEncoder::new(&mut sink, encoder, SpecificCharacterSet::default());
                let n = 1 + w.below(12);
                let mut expect: u64 = 0;
                for i in 0..n {
                    match w.below(5) {
                        0 => {
                            env.probe("encoder-item-header");
                            let l = if w.chance(1, 2) { 0xFFFF_FFFF } else { w.below(1000) * 2 };
                            enc.encode_item_header(l).map_err(|e| Violation::new("write-succeeds", "c04:count:item-header-failed", format!("{}", e)))?;
                            expect += 8;
                        }
                        1 => {
                            enc.encode_item_delimiter().map_err(|e| Violation::new("write-succeeds", "c04:count:delim-failed", format!("{}", e)))?;
                            expect += 8;
                        }
                        2 => {
                            enc.encode_sequence_delimiter().map_err(|e| Violation::new("write-succeeds", "c04:count:delim-failed", format!("{}", e)))?;
                            expect += 8;
                        }
                        3 => {
                            let vr = ds::ALL_VRS[w.below(ds::ALL_VRS.len() as u32) as usize];
                            let len = w.below(50) * 2;
                            let h = DataElementHeader::new(Tag(0x0009 + 2 * i as u16, 0x1001), vr_of(vr), Length(len));
                            enc.encode_element_header(h).map_err(|e| Violation::new("write-succeeds", "c04:count:header-failed", format!("{}", e)))?;
                            expect += if !syn.explicit() {
                                8
                            } else if ds::long_form(vr) {
                                12
                            } else {
                                8
                            };
                        }
                        _ => {
                            // a whole primitive element: header + padded value
                            let e = ds::STD_TAGS[w.below(ds::STD_TAGS.len() as u32) as usize];
                            let model = {
                                let mut t2 = Tape::generate(w.below(1 << 30) as u64);
                                let cfgm = GenCfg {
                                    max_depth: 1,
                                    private: false,
                                    pixel: false,
                                    encapsulated: false,
                                    all_undefined: true,
                                    latin1: false,
                                    utf8: false,
                                    other_cs: 0,
                                    nested_charset: false,
                                };
                                let m = ds::gen_dataset(&mut t2, &cfgm);
                                m.into_iter().find(|x| matches!(x.val, ds::Val::Prim(_)))
                            };
                            let _ = e;
                            if let Some(m) = model {
                                if let ds::Val::Prim(p) = &m.val {
                                    let (bytes, _) = ds::encode(std::slice::from_ref(&m), syn, None).map_err(harness)?;
                                    if bytes.len() % 2 == 0 {
                                        if let ds::Prim::Text(t) | ds::Prim::Bytes(t) = p {
                                            if t.len() % 2 == 1 {
                                                env.probe("encoder-odd-value");
                                            }
                                        }
                                    }
                                    let h = DataElementHeader::new(Tag(m.tag.0, m.tag.1), vr_of(&m.vr), Length(0));
                                    // the typed form of dates, times and numbers where one exists (by the seed)
                                    let value = match p {
                                        ds::Prim::Text(t) if w.chance(1, 2) => match typed_value(&m.vr, t) {
                                            Some(v) => {
                                                env.probe("encoder-typed-value");
                                                v
                                            }
                                            None => prim_value(&m.vr, p),
                                        },
                                        _ => prim_value(&m.vr, p),
                                    };
                                    enc.encode_primitive_element(&h, &value).map_err(|e| Violation::new("write-succeeds", "c04:count:primitive-failed", format!("{}", e)))?;
                                    expect += bytes.len() as u64;
                                }
                            }
                        }
                    }
                    let sunk = accepted.load(std::sync::atomic::Ordering::SeqCst) as u64;
                    check!(
                        enc.bytes_written() == sunk,
                        "byte-count",
                        "c04:count:mismatch",
                        "after call {} bytes_written() = {} but the sink accepted {} bytes",
                        i,
                        enc.bytes_written(),
                        sunk
                    );
                    check!(sunk == expect, "byte-count", "c04:count:size", "after call {} the sink holds {} bytes but the reference encoding of the same calls has {}", i, sunk, expect);
                }
                let _ = enc.flush();
            }
            Ok(())
        }
    }
}

#[allow(dead_code)]
fn _unused(_: VR) {}
