//! C09 — file meta group integrity and preamble handling.

use crate::dsbuild::*;
use crate::framework::CheckDef;
use crate::simio::*;
use dcmref::ds::{self, GenCfg, Syntax};
use dicom_core::ops::{ApplyOp, AttributeAction, AttributeOp};
use dicom_core::Tag;
use dicom_object::file::ReadPreamble;
use dicom_object::{FileMetaTable, FileMetaTableBuilder, OpenFileOptions};
use simcore::{check, fail, RunResult, Tape, Violation};

pub fn def() -> CheckDef {
    CheckDef {
        id: "C09",
        level: "exploration",
        configs: &["meta-table", "meta-ops", "file-from-reader", "file-by-path"],
        quick_runs: 200_000,
        thorough_runs: 4_000_000,
        run,
        rule: "meta-table / meta-ops: a FileMetaTable from seed-drawn UID/AE/SH strings of odd and even length with every subset of \
               optional fields and private information, optionally followed by a seed-drawn history of attribute operations; \
               after each step the table is written into a simulated sink (short writes, EINTR): recorded group length must equal \
               the bytes the sink accepted after the group-length element, the independent parser must see exactly group 0002 \
               inside it, and reading it back through a short-reading source must give an equal table. file-*: a complete file \
               written by write_all into the sink is read back (a) from a byte source with and without its 128-byte preamble, \
               under ReadPreamble Auto/Always/Never where meaningful, the source cutting its reads anywhere (first read from 1 \
               byte up), and (b) by path from a real temporary file; all must equal the original. distinct = distinct hashed \
               environment event sequences; non-trivial = a short transfer or EINTR fired",
        real: &["FileMetaTableBuilder, FileMetaTable::write / from_reader / ApplyOp", "FileDicomObject::write_all", "OpenFileOptions::from_reader / open_file (detect_preamble)"],
        stub: &["byte sink/source (SimSink/SimSource)", "independent file-meta parser"],
        assumptions: &["by-path reads use the real file system (temporary directory); only the byte-source variant has simulated segmentation"],
        required_probes: &["first-read-below-4", "first-read-below-132", "no-preamble", "ops-applied", "private-information"],
        net: false,
    }
}

fn gen_uid(w: &mut Tape) -> String {
    let base = ["1.2.840.10008.5.1.4.1.1.7", "1.2.840.10008.5.1.4.1.1.2", "1.2.3", "1.2.3.4", "2.25.123456789"][w.below(5) as usize];
    if w.chance(1, 3) {
        format!("{}.{}", base, w.below(100000))
    } else {
        base.to_string()
    }
}

fn gen_ae(w: &mut Tape) -> String {
    ["STORE-SCP", "A", "AE16CHARSAE16CHA", "ODD", ""][w.below(5) as usize].to_string()
}

pub(crate) fn gen_table(w: &mut Tape, env: &EnvRef, ts: &str) -> Result<FileMetaTable, Violation> {
    let mut b = FileMetaTableBuilder::new()
        .media_storage_sop_class_uid(gen_uid(w))
        .media_storage_sop_instance_uid(gen_uid(w))
        .transfer_syntax(ts);
    if w.chance(1, 2) {
        b = b.implementation_class_uid(gen_uid(w));
    }
    if w.chance(1, 2) {
        b = b.implementation_version_name(["V1", "DICOM-rs 0.8", "ODD", ""][w.below(4) as usize]);
    }
    if w.chance(1, 3) {
        b = b.source_application_entity_title(gen_ae(w));
    }
    if w.chance(1, 3) {
        b = b.sending_application_entity_title(gen_ae(w));
    }
    if w.chance(1, 3) {
        b = b.receiving_application_entity_title(gen_ae(w));
    }
    if w.chance(1, 3) {
        env.probe("private-information");
        // (the creator is conditionally required; the library also writes the information without it)
        if w.chance(3, 4) {
            b = b.private_information_creator_uid(gen_uid(w));
        } else {
            env.probe("private-information-without-creator");
        }
        let n = w.below(9) as usize;
        let mut v = simcore::pattern_bytes(3, n);
        if let Some(l) = v.last_mut() {
            if *l == 0 {
                *l = 7;
            }
        }
        b = b.private_information(v);
    }
    b.build().map_err(|e| Violation::new("meta-builds", "c09:build-failed", format!("building a file meta table failed: {}", e)))
}

fn check_table(t: &FileMetaTable, env: &EnvRef, step: &str) -> RunResult {
    let mut sink = SimSink::new(
        env,
        SinkCfg {
            short: true,
            interrupted: true,
            ..Default::default()
        },
    );
    if let Err(e) = t.write(&mut sink) {
        fail!("meta-writes", format!("c09:{}:write-failed", step), "FileMetaTable::write failed: {}", e);
    }
    let n = sink.data.len();
    check!(n >= 12, "meta-group-length", format!("c09:{}:too-short", step), "only {} bytes written", n);
    check!(
        t.information_group_length as usize == n - 12,
        "meta-group-length",
        format!("c09:{}:group-length", step),
        "recorded group length {} but the sink accepted {} bytes after the group length element [{:?}]",
        t.information_group_length,
        n - 12,
        t
    );
    let mut file = b"DICM".to_vec();
    file.extend_from_slice(&sink.data);
    if let Err(e) = ds::parse_file_meta(&file) {
        fail!("meta-group-length", format!("c09:{}:independent-parse", step), "written meta group is not valid: {} [{:?}]", e, t);
    }
    let src = SimSource::new(
        file,
        env,
        SrcCfg {
            short: true,
            interrupted: true,
            ..Default::default()
        },
    );
    match FileMetaTable::from_reader(src) {
        Ok(back) => check!(&back == t, "meta-roundtrip", format!("c09:{}:roundtrip", step), "table read back differs: {:?} vs {:?}", back, t),
        Err(e) => fail!("meta-roundtrip", format!("c09:{}:read-failed", step), "reading the written meta group failed: {} [{:?}]", e, t),
    }
    Ok(())
}

// every attribute of the group (version, group length and private information included) and one that is not in it
const OP_TAGS: [(u16, u16); 13] = [(2, 0x10), (2, 2), (2, 3), (2, 0x12), (2, 0x13), (2, 0x16), (2, 0x17), (2, 0x18), (2, 0x100), (2, 0x102), (2, 1), (2, 0), (8, 0x18)];

fn run_ops(w: &mut Tape, env: &EnvRef) -> RunResult {
    let mut t = gen_table(w, env, "1.2.840.10008.1.2.1")?;
    check_table(&t, env, "ops0")?;
    let n = 1 + w.below(6);
    for _ in 0..n {
        let tag = OP_TAGS[w.weighted(&[3, 3, 3, 3, 3, 3, 3, 3, 3, 2, 1, 1, 1]) as usize];
        let s: String = if w.chance(1, 8) {
            String::new()
        } else if tag.1 >= 0x13 && tag.1 <= 0x18 {
            gen_ae(w)
        } else {
            gen_uid(w)
        };
        let action = match w.below(14) {
            0 => AttributeAction::SetStr(s.into()),
            1 => AttributeAction::ReplaceStr(s.into()),
            2 => AttributeAction::Remove,
            3 => AttributeAction::Empty,
            4 => AttributeAction::SetStrIfMissing(s.into()),
            5 => AttributeAction::Truncate(w.below(3) as usize),
            6 => AttributeAction::Set(dicom_core::PrimitiveValue::from(s)),
            7 => AttributeAction::SetIfMissing(dicom_core::PrimitiveValue::from(s)),
            8 => AttributeAction::Replace(dicom_core::PrimitiveValue::from(s)),
            9 => AttributeAction::PushStr(s.into()),
            10 => AttributeAction::Set(dicom_core::PrimitiveValue::from(simcore::pattern_bytes(5, w.below(7) as usize))),
            11 => AttributeAction::SetVr(dicom_core::VR::UI),
            12 => AttributeAction::PushU16(w.below(300) as u16),
            _ => AttributeAction::Set(dicom_core::PrimitiveValue::from(w.below(70000))),
        };
        let desc = format!("{:?} on ({:04X},{:04X})", action, tag.0, tag.1);
        let r = t.apply(AttributeOp::new(Tag(tag.0, tag.1), action));
        env.with(|e| e.obs.note_with(|| format!("op {} -> {}", desc, if r.is_ok() { "ok" } else { "err" })));
        if r.is_ok() {
            env.probe("ops-applied");
        }
        // whether or not the operation was accepted, the table must stay consistent
        check_table(&t, env, "ops")?;
    }
    Ok(())
}

fn tmp_path() -> std::path::PathBuf {
    let dir = std::env::temp_dir().join("dcmsim-tmp");
    let _ = std::fs::create_dir_all(&dir);
    dir.join(format!("c09-{}.dcm", std::process::id()))
}

fn run_file(w: &mut Tape, env: &EnvRef, by_path: bool) -> RunResult {
    let syn = [Syntax::ImplicitLE, Syntax::ExplicitLE, Syntax::ExplicitBE][w.below(3) as usize];
    let gcfg = GenCfg {
        max_depth: 2,
        private: false,
        pixel: false,
        encapsulated: false,
        all_undefined: false,
        latin1: false,
        utf8: false,
        other_cs: 0,
        nested_charset: false,
    };
    let mut t2 = Tape::generate(w.below(1 << 20) as u64);
    let model = model_items_undef(&ds::gen_dataset(&mut t2, &gcfg));
    let obj = build_object(&model, syn);
    let meta = gen_table(w, env, syn.uid())?;
    let file = obj.clone().with_exact_meta(meta.clone());
    let mut sink = SimSink::new(
        env,
        SinkCfg {
            short: true,
            interrupted: true,
            ..Default::default()
        },
    );
    if let Err(e) = file.write_all(&mut sink) {
        fail!("file-writes", "c09:file:write-failed", "write_all failed: {}", e);
    }
    let full = sink.data.clone();
    check!(full.len() > 132 && &full[128..132] == b"DICM", "file-writes", "c09:file:no-magic", "written file lacks preamble + DICM");
    let with_preamble = w.chance(1, 2);
    let bytes = if with_preamble {
        full.clone()
    } else {
        env.probe("no-preamble");
        full[128..].to_vec()
    };
    let mode = match w.below(3) {
        0 => ReadPreamble::Auto,
        1 if with_preamble => ReadPreamble::Always,
        1 => ReadPreamble::Never,
        _ => ReadPreamble::Auto,
    };
    let who = format!("{}:{}:{:?}", if by_path { "path" } else { "reader" }, if with_preamble { "preamble" } else { "bare" }, mode);
    let back = if by_path {
        let p = tmp_path();
        std::fs::write(&p, &bytes).map_err(|e| Violation::new("harness", "HARNESS-PANIC@c09-tmp", format!("{}", e)))?;
        env.ev("file-written", bytes.len() as u64, 0);
        let r = OpenFileOptions::new().read_preamble(mode).open_file(&p);
        let _ = std::fs::remove_file(&p);
        r
    } else {
        // the byte source cuts its reads anywhere; the first one from 1 byte up
        let first = match w.below(6) {
            0 => 1 + w.below(3) as usize,
            1 => 4 + w.below(128) as usize,
            2 => 131,
            3 => 132,
            4 => 133 + w.below(70) as usize,
            _ => 0,
        };
        if first > 0 && first < 4 {
            env.probe("first-read-below-4");
        }
        if first > 0 && first < 132 {
            env.probe("first-read-below-132");
        }
        let mut cuts = vec![4, 128, 131, 132, 136];
        if first > 0 {
            cuts.push(first);
        }
        let src = FirstCut {
            inner: SimSource::new(
                bytes.clone(),
                env,
                SrcCfg {
                    short: true,
                    interrupted: true,
                    cuts,
                    ..Default::default()
                },
            ),
            first,
            env: env.clone(),
        };
        OpenFileOptions::new().read_preamble(mode).from_reader(src)
    };
    let back = match back {
        Ok(b) => b,
        Err(e) => fail!(
            "file-reads-back",
            format!("c09:{}:read-failed", who.split(':').take(2).collect::<Vec<_>>().join(":")),
            "a valid file ({} preamble, {} bytes) could not be read [{}]: {}",
            if with_preamble { "with" } else { "without" },
            bytes.len(),
            who,
            e
        ),
    };
    check!(back.meta() == &meta, "file-reads-back", "c09:file:meta-differs", "meta group read back differs [{}]: {:?} vs {:?}", who, back.meta(), meta);
    // reference: what the eager data-set reader gives for the same data set bytes
    if let Some(d) = shape_diff(&back, &model, "") {
        fail!("file-reads-back", "c09:file:dataset-differs", "data set read back differs [{}]: {}", who, d);
    }
    Ok(())
}

/// forces the size of the very first read
struct FirstCut {
    inner: SimSource,
    first: usize,
    env: EnvRef,
}

impl std::io::Read for FirstCut {
    fn read(&mut self, buf: &mut [u8]) -> std::io::Result<usize> {
        if self.first > 0 && self.inner.handed == 0 && !buf.is_empty() {
            let n = self.first.min(buf.len());
            self.env.with(|e| e.obs.fault("first-read-cut"));
            let r = {
                let saved = std::mem::replace(&mut self.inner.cfg.max_chunk, n);
                let saved_short = std::mem::replace(&mut self.inner.cfg.short, false);
                let r = self.inner.read(&mut buf[..n]);
                self.inner.cfg.max_chunk = saved;
                self.inner.cfg.short = saved_short;
                r
            };
            return r;
        }
        self.inner.read(buf)
    }
}

fn run(cfg: usize, w: &mut Tape, env: &EnvRef) -> RunResult {
    match cfg {
        0 => {
            let ts = ["1.2.840.10008.1.2", "1.2.840.10008.1.2.1", "1.2.840.10008.1.2.4.50"][w.below(3) as usize];
            let t = gen_table(w, env, ts)?;
            check_table(&t, env, "table")
        }
        1 => run_ops(w, env),
        2 => run_file(w, env, false),
        _ => run_file(w, env, true),
    }
}
