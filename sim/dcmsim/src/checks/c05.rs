//! C05 — untrusted input never makes a reader panic, abort or hang.
//!
//! Valid encodings are damaged the way storage and transport damage them and
//! served through a short-reading source with a read-call budget; every
//! public reading entry point is run over the result. Panics are caught by
//! the framework (class = panic location), aborts by the supervisor (worker
//! death), hangs by the read-call budget and the wall-clock watchdog.

use crate::checks::dsio::deflate;
use crate::corrupt::corrupt;
use crate::dsbuild::*;
use crate::framework::CheckDef;
use crate::pdugen::{gen_pdu, GenOpts};
use crate::simio::*;
use bytes::BytesMut;
use dcmref::ds::{self, GenCfg, MetaSpec, Syntax};
use dicom_core::value::PixelFragmentSequence;
use dicom_core::{DataDictionary, DataElement, PrimitiveValue, Tag, VR};
use dicom_dictionary_std::StandardDataDictionary;
use dicom_object::file::ReadPreamble;
use dicom_object::{DicomCollectorOptions, FileMetaTable, FileMetaTableBuilder, InMemDicomObject, OpenFileOptions};
use dicom_parser::dataset::lazy_read::LazyDataSetReader;
use dicom_parser::dataset::read::{DataSetReader, DataSetReaderOptions, OddLengthStrategy, ValueReadStrategy};
use dicom_pixeldata::PixelDecoder;
use dicom_ul::association::read_pdu_from_wire;
use dicom_ul::pdu::{read_pdu, write_pdu};
use simcore::{check, RunResult, Tape, Violation};
use std::io::BufReader;
use std::str::FromStr;
use std::sync::OnceLock;

pub fn def() -> CheckDef {
    CheckDef {
        id: "C05",
        level: "exploration",
        configs: &["file", "dataset", "collector", "json", "pdu", "pixeldata", "strings"],
        quick_runs: 80_000,
        thorough_runs: 3_000_000,
        run,
        rule: "one run = one valid encoding (generated file / data set in every transfer syntax incl. deflated / DICOM JSON \
               document / PDU / image object with native, RLE or JPEG pixel data) damaged by 1-3 seed-chosen storage or \
               transport faults (torn write, 1-8 bit flips, boundary bytes, zeroed block, duplicated block repeated up to 4096 \
               times, transposed or spliced block, layout-aware damage of a length/VR/tag field, nesting bomb up to 20000 \
               levels) and served through a simulated source with seed-chosen short reads and a read-call budget of 256 + \
               8*len; every public reading entry point then runs over it with seed-chosen options (preamble mode, odd-length \
               strategy, value-read strategy, flexible VR, collector call history), followed by pixel decoding and a dump of \
               whatever was read. Oracle: returns Ok or Err - no panic (caught, class = location), no abort (worker process \
               death is attributed to the run), no hang (budget exceeded or 30 s watchdog). distinct = distinct hashed \
               (damage kinds, environment event sequence); non-trivial = at least one damage applied",
        real: &["OpenFileOptions::from_reader, FileMetaTable::from_reader", "InMemDicomObject::read_dataset_with_ts", "DataSetReader (all value-read / odd-length strategies, flexible VR)", "LazyDataSetReader", "DicomCollector", "dicom_json::from_str", "read_pdu, read_pdu_from_wire", "dicom_pixeldata decode_pixel_data(_frame) with native/RLE/JPEG decoders", "dicom_dump::dump_object_to", "Tag::from_str, selector parser, date/time parsers"],
        stub: &["byte source (SimSource with call budget)", "storage/transport corruptor", "valid inputs come from the independent encoders (JPEG frames from dicom-rs' own transcoder)"],
        assumptions: &["release build with overflow checks and debug assertions ON (arithmetic overflow is a defect in either build mode)", "worker processes run each case on their main thread with the default 8 MiB stack", "allocation failure is not injected"],
        required_probes: &["read-ok", "read-err", "pixel-decoded", "dumped", "budget-ok"],
        net: false,
    }
}

fn harness(e: impl std::fmt::Display) -> Violation {
    Violation::new("harness", "HARNESS-PANIC@c05", format!("{}", e))
}

fn budget_src(data: Vec<u8>, env: &EnvRef) -> SimSource {
    let n = data.len();
    budget_src_for(data, env, n)
}

/// `logical_len`: the length the budget is computed from (the inflated
/// length for a deflated stream: every end-of-data probe of the data set
/// reader reaches the source again)
fn budget_src_for(data: Vec<u8>, env: &EnvRef, logical_len: usize) -> SimSource {
    let budget = 256 + 8 * logical_len.max(data.len());
    SimSource::new(
        data,
        env,
        SrcCfg {
            short: true,
            interrupted: false,
            call_budget: budget,
            ..Default::default()
        },
    )
}

/// true when some reader of this run asked for more than 64 MiB in one
/// allocation: the remaining readers of the run are skipped (each would touch
/// gigabytes again; slow, not a hang)
fn huge_alloc(env: &EnvRef) -> bool {
    let p = crate::PEAK_REQUEST.load(std::sync::atomic::Ordering::Relaxed);
    if p > (64 << 20) {
        env.probe("allocation-over-64MiB");
        if p > (1 << 30) {
            env.probe("allocation-over-1GiB");
        }
        true
    } else {
        false
    }
}

fn over(src_flag: &std::sync::Arc<std::sync::atomic::AtomicBool>, what: &str) -> RunResult {
    if src_flag.load(std::sync::atomic::Ordering::SeqCst) {
        return Err(Violation::new(
            "no-hang",
            format!("hang:read-budget:{}", what),
            format!("{} made more than 256 + 8*len read calls on its source: it does not terminate on its own", what),
        ));
    }
    Ok(())
}

fn gen_file_bytes(w: &mut Tape) -> Result<(Syntax, Vec<u8>, ds::Layout, usize), Violation> {
    let syn = [Syntax::ImplicitLE, Syntax::ExplicitLE, Syntax::ExplicitBE][w.below(3) as usize];
    let gcfg = GenCfg {
        max_depth: 3,
        private: true,
        pixel: true,
        encapsulated: syn == Syntax::ExplicitLE,
        all_undefined: false,
        latin1: w.chance(1, 4),
        utf8: w.chance(1, 5),
        other_cs: [0u8, 0, 0, 0, 3, 4][w.below(6) as usize],
        nested_charset: true,
    };
    let model = restrict_to(&ds::gen_dataset(w, &gcfg), syn);
    let (dataset, layout) = ds::encode(&model, syn, None).map_err(harness)?;
    let meta = MetaSpec {
        media_sop_class: b"1.2.840.10008.5.1.4.1.1.7".to_vec(),
        media_sop_instance: b"1.2.3.4.5".to_vec(),
        transfer_syntax: syn.uid().as_bytes().to_vec(),
        impl_class_uid: b"1.2.3.999".to_vec(),
        impl_version: Some(b"REFIMPL".to_vec()),
        source_ae: None,
    };
    let file = ds::encode_file(&meta, &dataset, w.chance(3, 4));
    let base = file.len() - dataset.len();
    Ok((syn, file, layout, base))
}

fn after_read(obj: &dicom_object::DefaultDicomObject, env: &EnvRef) {
    // dumping whatever object was read
    let mut sink = SimSink::new(env, SinkCfg::default());
    let _ = dicom_dump::DumpOptions::new().dump_object_to(&mut sink, obj);
    let _ = dicom_dump::dump_file_to(&mut sink, obj);
    // width-limited dumping (what the stdout variants and the CLI do), element by element
    for (i, e) in obj.iter().enumerate() {
        let width = [100u32, 120, 40, 79][i % 4];
        let _ = dicom_dump::dump_element(&mut sink, e, width, (i % 3) as u32, i % 2 == 0, false);
        if i > 200 {
            break;
        }
    }
    env.probe("dumped");
    // pixel data decoding of any object content
    if obj.decode_pixel_data().is_ok() {
        env.probe("pixel-decoded");
    }
    let _ = obj.decode_pixel_data_frame(0);
    let _ = obj.decode_pixel_data_frame(1);
    let _ = obj.decode_pixel_data_frame(2);
    harvest_strings(obj, env);
}

fn try_strings(s: &str) {
    let _ = Tag::from_str(s);
    let _ = StandardDataDictionary.parse_selector(s);
    let _ = dicom_core::value::deserialize::parse_date(s.as_bytes());
    let _ = dicom_core::value::deserialize::parse_date_partial(s.as_bytes());
    let _ = dicom_core::value::deserialize::parse_time(s.as_bytes());
    let _ = dicom_core::value::deserialize::parse_time_partial(s.as_bytes());
    let _ = dicom_core::value::deserialize::parse_datetime_partial(s.as_bytes());
    let _ = dicom_core::value::range::parse_date_range(s.as_bytes());
    let _ = dicom_core::value::range::parse_time_range(s.as_bytes());
    let _ = dicom_core::value::range::parse_datetime_range(s.as_bytes());
    let _ = dicom_core::dictionary::TagRange::from_str(s);
}

fn harvest_strings(obj: &InMemDicomObject, env: &EnvRef) {
    let mut n = 0;
    for e in obj.iter() {
        if let Ok(s) = e.value().to_str() {
            if s.len() < 200 {
                try_strings(&s);
                n += 1;
            }
        }
        // typed conversions of damaged values must not panic either
        let _ = e.value().to_date();
        let _ = e.value().to_time();
        let _ = e.value().to_datetime();
        let _ = e.value().to_multi_int::<i32>();
        let _ = e.value().to_multi_float64();
        let _ = e.value().to_person_name();
        if n > 40 {
            break;
        }
    }
    if n > 0 {
        env.probe("strings-harvested");
    }
}

fn run_file(w: &mut Tape, env: &EnvRef) -> RunResult {
    let (_syn, mut file, layout, base) = gen_file_bytes(w)?;
    env.with(|e| corrupt(w, &mut e.obs, &mut file, Some((&layout, base))));
    if crate::framework::dry() {
        return Ok(());
    }
    let mode = [ReadPreamble::Auto, ReadPreamble::Always, ReadPreamble::Never][w.below(3) as usize];
    let odd = [OddLengthStrategy::Accept, OddLengthStrategy::NextEven, OddLengthStrategy::Fail][w.below(3) as usize];
    let mut opts = OpenFileOptions::new().read_preamble(mode).odd_length_strategy(odd);
    if w.chance(1, 4) {
        opts = opts.read_until(Tag(0x7FE0, 0x0010));
    }
    let src = budget_src(file.clone(), env);
    let flag = src.over_budget.clone();
    match opts.from_reader(src) {
        Ok(obj) => {
            env.probe("read-ok");
            after_read(&obj, env);
        }
        Err(_) => env.probe("read-err"),
    }
    over(&flag, "OpenFileOptions::from_reader")?;
    env.probe("budget-ok");
    if huge_alloc(env) {
        return Ok(());
    }
    let start = if file.len() >= 132 && &file[128..132] == b"DICM" { 128 } else { 0 };
    let src = budget_src(file[start..].to_vec(), env);
    let flag = src.over_budget.clone();
    let _ = FileMetaTable::from_reader(src);
    over(&flag, "FileMetaTable::from_reader")
}

fn run_dataset(w: &mut Tape, env: &EnvRef) -> RunResult {
    let si = w.below(4);
    let syn = [Syntax::ImplicitLE, Syntax::ExplicitLE, Syntax::ExplicitBE, Syntax::ExplicitLE][si as usize];
    let gcfg = GenCfg {
        max_depth: 3,
        private: true,
        pixel: true,
        encapsulated: syn == Syntax::ExplicitLE,
        all_undefined: false,
        latin1: w.chance(1, 4),
        utf8: w.chance(1, 5),
        other_cs: [0u8, 0, 0, 0, 3, 4][w.below(6) as usize],
        nested_charset: true,
    };
    let model = restrict_to(&ds::gen_dataset(w, &gcfg), syn);
    let (mut bytes, layout) = ds::encode(&model, syn, None).map_err(harness)?;
    let deflated = si == 3;
    // damage the stream itself, or (deflated) either the plain stream before compression or the compressed bytes
    let mut logical_len = 0usize;
    let (ts, mut bytes) = if deflated {
        if w.chance(1, 2) {
            env.with(|e| corrupt(w, &mut e.obs, &mut bytes, Some((&layout, 0))));
            logical_len = bytes.len();
            (ts_deflated(), deflate(&bytes))
        } else {
            let mut z = deflate(&bytes);
            env.with(|e| corrupt(w, &mut e.obs, &mut z, None));
            // a damaged deflate stream can inflate to more than the original
            logical_len = crate::checks::dsio::inflate(&z).map(|v| v.len()).unwrap_or(bytes.len() * 4 + 65536);
            (ts_deflated(), z)
        }
    } else {
        env.with(|e| corrupt(w, &mut e.obs, &mut bytes, Some((&layout, 0))));
        (ts_of(syn), bytes)
    };
    if bytes.len() > 4_000_000 {
        bytes.truncate(4_000_000);
    }
    if crate::framework::dry() {
        return Ok(());
    }
    // eager object
    let src = budget_src_for(bytes.clone(), env, logical_len);
    let flag = src.over_budget.clone();
    match InMemDicomObject::read_dataset_with_ts(src, &ts) {
        Ok(obj) => {
            env.probe("read-ok");
            let mut sink = SimSink::new(env, SinkCfg::default());
            let _ = dicom_dump::dump_object_to(&mut sink, &obj);
            env.probe("dumped");
            harvest_strings(&obj, env);
        }
        Err(_) => env.probe("read-err"),
    }
    over(&flag, "read_dataset_with_ts")?;
    env.probe("budget-ok");
    if deflated || huge_alloc(env) {
        return Ok(());
    }
    // token reader with every strategy
    let mut o = DataSetReaderOptions::default();
    o.odd_length = [OddLengthStrategy::Accept, OddLengthStrategy::NextEven, OddLengthStrategy::Fail][w.below(3) as usize];
    o.value_read = [ValueReadStrategy::Interpreted, ValueReadStrategy::Preserved, ValueReadStrategy::Raw][w.below(3) as usize];
    o.flexible_decoding = w.chance(1, 2);
    let src = budget_src(bytes.clone(), env);
    let flag = src.over_budget.clone();
    if let Ok(rd) = DataSetReader::new_with_ts_options(src, &ts, o) {
        let mut n = 0usize;
        for t in rd {
            n += 1;
            if t.is_err() {
                break;
            }
            check!(n < 3_000_000, "no-hang", "hang:tokens:DataSetReader", "DataSetReader yields an endless token stream");
        }
    }
    over(&flag, "DataSetReader")?;
    if huge_alloc(env) {
        return Ok(());
    }
    // lazy reader
    let src = budget_src(bytes.clone(), env);
    let flag = src.over_budget.clone();
    if let Ok(mut rd) = LazyDataSetReader::new_with_ts(src, &ts) {
        let mut n = 0usize;
        let skip = w.chance(1, 2);
        loop {
            let tok = match rd.advance() {
                None => break,
                Some(Err(_)) => break,
                Some(Ok(t)) => t,
            };
            n += 1;
            let r = if skip && matches!(tok, dicom_parser::dataset::LazyDataToken::LazyValue { .. } | dicom_parser::dataset::LazyDataToken::LazyItemValue { .. }) {
                tok.skip().is_ok()
            } else {
                tok.into_owned().is_ok()
            };
            if !r {
                break;
            }
            check!(n < 3_000_000, "no-hang", "hang:tokens:LazyDataSetReader", "LazyDataSetReader yields an endless token stream");
        }
    }
    over(&flag, "LazyDataSetReader")
}

fn run_collector(w: &mut Tape, env: &EnvRef) -> RunResult {
    let (_syn, mut file, layout, base) = gen_file_bytes(w)?;
    env.with(|e| corrupt(w, &mut e.obs, &mut file, Some((&layout, base))));
    if crate::framework::dry() {
        return Ok(());
    }
    let mode = [ReadPreamble::Auto, ReadPreamble::Always, ReadPreamble::Never][w.below(3) as usize];
    let src = budget_src(file, env);
    let flag = src.over_budget.clone();
    let mut opts = DicomCollectorOptions::new().read_preamble(mode);
    // a transfer syntax given up front (right, wrong or unknown), and the odd-length strategies
    match w.below(6) {
        1 => opts = opts.expected_ts("1.2.840.10008.1.2"),
        2 => opts = opts.expected_ts("1.2.840.10008.1.2.1"),
        3 => opts = opts.expected_ts("1.2.840.10008.1.2.2"),
        4 => opts = opts.expected_ts(["1.2.840.10008.1.2.1.99", "1.2.3.4.999", ""][w.below(3) as usize]),
        _ => {}
    }
    match w.below(4) {
        1 => opts = opts.odd_length_strategy(dicom_parser::dataset::read::OddLengthStrategy::NextEven),
        2 => opts = opts.odd_length_strategy(dicom_parser::dataset::read::OddLengthStrategy::Fail),
        _ => {}
    }
    let mut col = opts.from_reader(BufReader::new(src));
    let ncalls = 1 + w.below(8);
    let mut obj = InMemDicomObject::new_empty();
    for _ in 0..ncalls {
        let ok = match w.below(9) {
            0 => col.read_preamble().is_ok(),
            1 => col.read_file_meta().is_ok(),
            7 => col.take_file_meta().is_some(),
            8 => col.read_dataset_up_to(Tag(0, 0), &mut obj).is_ok(),
            2 => col.read_dataset_up_to(Tag(0x0008 + 2 * w.below(0x40) as u16, w.below(0x2000) as u16), &mut obj).is_ok(),
            3 => col.read_dataset_up_to_pixeldata(&mut obj).is_ok(),
            4 => col.read_dataset_to_end(&mut obj).is_ok(),
            5 => {
                let mut t = Vec::new();
                col.read_basic_offset_table(&mut t).is_ok()
            }
            _ => {
                let mut f = Vec::new();
                let mut k = 0;
                let mut ok = true;
                loop {
                    match col.read_next_fragment(&mut f) {
                        Ok(Some(_)) => k += 1,
                        Ok(None) => break,
                        Err(_) => {
                            ok = false;
                            break;
                        }
                    }
                    if k > 100_000 {
                        return Err(Violation::new("no-hang", "hang:collector:read_next_fragment", "read_next_fragment never returns None"));
                    }
                }
                ok
            }
        };
        if ok {
            env.probe("read-ok");
        } else {
            env.probe("read-err");
        }
        if huge_alloc(env) {
            break;
        }
    }
    let mut sink = SimSink::new(env, SinkCfg::default());
    let _ = dicom_dump::dump_object_to(&mut sink, &obj);
    env.probe("dumped");
    over(&flag, "DicomCollector")?;
    env.probe("budget-ok");
    Ok(())
}

fn run_json(w: &mut Tape, env: &EnvRef) -> RunResult {
    let gcfg = GenCfg {
        max_depth: 3,
        private: true,
        pixel: true,
        encapsulated: false,
        all_undefined: true,
        latin1: false,
        utf8: false,
        other_cs: 0,
        nested_charset: false,
    };
    let model = model_items_undef(&restrict_to(&ds::gen_dataset(w, &gcfg), Syntax::ImplicitLE));
    let obj = build_object(&model, Syntax::ExplicitLE);
    let text = match dicom_json::to_string(&obj) {
        Ok(t) => t,
        Err(_) => return Ok(()), // serialisation is not a reader
    };
    let mut bytes = text.into_bytes();
    // textual damage: structure-aware edits plus the generic corruptor
    let n = 1 + w.below(3);
    for _ in 0..n {
        if bytes.is_empty() {
            break;
        }
        let i = w.below(bytes.len() as u32) as usize;
        match w.below(8) {
            0 => bytes[i] = b"{}[]\",:0-9eE.+"[w.below(15) as usize % 14],
            1 => {
                let ins: &[u8] = [&b"null"[..], b"1e999", b"-0", b"\"\"", b"[[[[[[[[", b"{\"vr\":\"SQ\",\"Value\":[{", b"\"Value\":[1.5]", b"18446744073709551616"][w.below(8) as usize];
                bytes.splice(i..i, ins.iter().cloned());
            }
            2 => {
                // swap a VR code
                if let Some(p) = find(&bytes, b"\"vr\":\"").filter(|p| p + 8 <= bytes.len()) {
                    let vrs: [&[u8; 2]; 8] = [b"SQ", b"OB", b"AT", b"FD", b"PN", b"UN", b"US", b"XX"];
                    bytes[p + 6..p + 8].copy_from_slice(vrs[w.below(8) as usize]);
                }
            }
            3 => bytes.truncate(i),
            4 | 5 => {
                // structure-aware: further members (conflicting, repeated, mistyped) behind the "vr" member of one
                // element object, as a merge of two documents or a replayed write would leave them
                let mut at = Vec::new();
                let mut from = 0usize;
                while let Some(p) = find(&bytes[from..], b"\"vr\":\"") {
                    let q = from + p + 9; // behind "vr":"XX"
                    if q <= bytes.len() {
                        at.push(q);
                    }
                    from += p + 6;
                }
                if !at.is_empty() {
                    let q = at[w.below(at.len() as u32) as usize];
                    let ins: &[u8] = [
                        &b",\"InlineBinary\":\"AAAA\""[..],
                        b",\"BulkDataURI\":\"http://example.org/x\"",
                        b",\"Value\":[1,2]",
                        b",\"Value\":[1,2],\"InlineBinary\":\"AAAA\"",
                        b",\"InlineBinary\":\"AAAA\",\"Value\":[1]",
                        b",\"Value\":[\"a\"],\"BulkDataURI\":\"u\"",
                        b",\"BulkDataURI\":\"u\",\"InlineBinary\":\"AAAA\"",
                        b",\"vr\":\"OB\"",
                        b",\"InlineBinary\":\"!!!\"",
                        b",\"InlineBinary\":7",
                        b",\"Value\":null",
                        b",\"Value\":[null]",
                        b",\"Value\":[{\"Alphabetic\":1}]",
                        b",\"Value\":[{\"00100010\":{\"vr\":\"PN\"}}]",
                        b",\"Other\":1",
                    ][w.below(15) as usize];
                    bytes.splice(q..q, ins.iter().cloned());
                    env.with(|e| e.obs.fault("json-member"));
                }
            }
            _ => env.with(|e| corrupt(w, &mut e.obs, &mut bytes, None)),
        }
    }
    env.with(|e| e.obs.fault("json-damage"));
    if let Ok(s) = std::str::from_utf8(&bytes) {
        match dicom_json::from_str::<InMemDicomObject>(s) {
            Ok(o) => {
                env.probe("read-ok");
                let mut sink = SimSink::new(env, SinkCfg::default());
                let _ = dicom_dump::dump_object_to(&mut sink, &o);
                env.probe("dumped");
            }
            Err(_) => env.probe("read-err"),
        }
    }
    let src = budget_src(bytes.clone(), env);
    let flag = src.over_budget.clone();
    let _ = dicom_json::from_reader::<_, InMemDicomObject>(src);
    over(&flag, "dicom_json::from_reader")?;
    env.probe("budget-ok");
    let _ = dicom_json::from_slice::<InMemDicomObject>(&bytes);
    Ok(())
}

fn find(h: &[u8], n: &[u8]) -> Option<usize> {
    h.windows(n.len()).position(|w| w == n)
}

/// A PDU whose framing is consistent (every length field covers exactly what follows, as the independent
/// encoder guarantees) but whose content is not what its type prescribes: fixed-size fields cut short or
/// over-long, sub-items of the wrong kind, bodies shorter than the fixed part. This is what a misbehaving
/// peer sends, or what a splice of two valid messages leaves.
fn framed_malformed_pdu(w: &mut Tape) -> Vec<u8> {
    use dcmref::pdu::{self as rp, RAssoc, RItem, RPdu, RPdv, RSub};
    let cut = |w: &mut Tape, mut d: Vec<u8>| -> Vec<u8> {
        match w.below(4) {
            0 => d.truncate(w.below(d.len() as u32 + 1) as usize),
            1 => d.truncate(w.below(4).min(d.len() as u32) as usize),
            2 => d.extend(std::iter::repeat(0x41).take(1 + w.below(5) as usize)),
            _ => {}
        }
        d
    };
    let uid: &[u8] = b"1.2.840.10008.1.1";
    let mut subs = vec![
        rp::sub_max_length([0u32, 16384, u32::MAX][w.below(3) as usize]),
        rp::sub_impl_class_uid(b"1.2.3.999"),
        rp::sub_impl_version(b"V1"),
        RSub { ty: 0x53, data: vec![0, 1, 0, 1] },
        rp::sub_role(uid, 1, 0).unwrap(),
        rp::sub_ext_neg(uid, &[1, 2, 3]).unwrap(),
        rp::sub_user_identity(2, 1, b"user", b"secret").unwrap(),
        RSub { ty: 0x59, data: vec![0, 2, 9, 9] },
        RSub { ty: 0x57, data: vec![0, 3, b'1', b'.', b'2', 0, 0] },
    ];
    // keep a seed-chosen subset, in seed-chosen order, and damage the content of one or two
    let mut chosen = Vec::new();
    for _ in 0..(1 + w.below(5)) {
        chosen.push(subs[w.below(subs.len() as u32) as usize].clone());
    }
    for _ in 0..(1 + w.below(2)) {
        let i = w.below(chosen.len() as u32) as usize;
        let d = std::mem::take(&mut chosen[i].data);
        chosen[i].data = cut(w, d);
        if w.chance(1, 5) {
            chosen[i].ty = [0x51u8, 0x52, 0x53, 0x54, 0x55, 0x56, 0x57, 0x58, 0x59, 0x5A][w.below(10) as usize];
        }
    }
    subs = chosen;
    let mut pc_subs = vec![RSub { ty: 0x30, data: uid.to_vec() }, RSub { ty: 0x40, data: b"1.2.840.10008.1.2".to_vec() }];
    if w.chance(1, 3) {
        let i = w.below(2) as usize;
        let d = std::mem::take(&mut pc_subs[i].data);
        pc_subs[i].data = cut(w, d);
        if w.chance(1, 4) {
            pc_subs[i].ty = [0x30u8, 0x40, 0x10, 0x50, 0x20][w.below(5) as usize];
        }
    }
    let mut items = vec![RItem::AppCtx(b"1.2.840.10008.3.1.1.1".to_vec())];
    match w.below(4) {
        0 => items.push(RItem::PcProposed { id: 1, subs: pc_subs }),
        1 => items.push(RItem::PcResult { id: 1, reason: w.below(5) as u8, subs: pc_subs }),
        // a presentation context item shorter than its fixed part
        2 => items.push(RItem::Other { ty: [0x20u8, 0x21][w.below(2) as usize], data: vec![1u8, 0, 0, 0][..w.below(4) as usize].to_vec() }),
        _ => {}
    }
    if w.chance(3, 4) {
        items.push(RItem::UserInfo(subs));
    } else {
        items.push(RItem::Other { ty: 0x50, data: vec![0x51, 0, 0][..w.below(4) as usize].to_vec() });
    }
    if w.chance(1, 4) {
        let n = items.len();
        items.swap(0, n - 1);
    }
    let assoc = RAssoc { version: [1u16, 0, 0xFFFF][w.below(3) as usize], called: b"ANY-SCP".to_vec(), calling: b"ANY-SCU".to_vec(), items };
    let p = match w.below(8) {
        0..=3 => {
            if w.chance(1, 2) {
                RPdu::AssocRq(assoc)
            } else {
                RPdu::AssocAc(assoc)
            }
        }
        // a known PDU type with a body shorter (or longer) than its fixed part
        4 => RPdu::Unknown { ty: 1 + w.below(7) as u8, data: vec![0u8; w.below(70) as usize] },
        5 => RPdu::Unknown { ty: [3u8, 5, 6, 7][w.below(4) as usize], data: vec![0u8; w.below(8) as usize] },
        // P-DATA whose value item declares less than its two header bytes, or more than the PDU holds
        6 => {
            let mut body = Vec::new();
            body.extend_from_slice(&([0u32, 1, 2, 3, 0xFFFF_FFFF, 100][w.below(6) as usize]).to_be_bytes());
            body.extend_from_slice(&vec![1u8; w.below(6) as usize]);
            RPdu::Unknown { ty: 4, data: body }
        }
        _ => RPdu::PData(vec![RPdv { ctx: w.below(256) as u8, header: w.below(256) as u8, data: vec![0u8; w.below(40) as usize] }]),
    };
    rp::encode(&p).unwrap_or_default()
}

fn run_pdu(w: &mut Tape, env: &EnvRef) -> RunResult {
    let n = 1 + w.below(3);
    let mut bytes = Vec::new();
    let framed = w.chance(1, 3);
    if framed {
        // consistent framing, malformed content; no further damage, so that the decoder gets past the framing
        for _ in 0..n {
            bytes.extend_from_slice(&framed_malformed_pdu(w));
        }
        env.with(|e| e.obs.fault("pdu-content-malformed"));
    }
    for _ in 0..(if framed { 0 } else { n }) {
        let p = gen_pdu(
            w,
            &GenOpts {
                big: false,
                max_pdata: 600,
                unknown: true,
            },
        );
        let _ = write_pdu(&mut bytes, &p);
    }
    if !framed {
        env.with(|e| corrupt(w, &mut e.obs, &mut bytes, None));
    }
    // length-field targeting: PDU length and item lengths
    if !framed && bytes.len() >= 6 && w.chance(1, 2) {
        let v: u32 = [0xFFFF_FFFF, 0, 1, 5, 0x7FFF_FFFF, (bytes.len() as u32).wrapping_sub(5)][w.below(6) as usize];
        bytes[2..6].copy_from_slice(&v.to_be_bytes());
        env.with(|e| e.obs.fault("pdu-length-field"));
    }
    if !framed && bytes.len() >= 80 && w.chance(1, 2) {
        let i = 74 + w.below((bytes.len() - 78) as u32) as usize;
        let v: u16 = [0xFFFF, 0, 1, 3][w.below(4) as usize];
        bytes[i..i + 2].copy_from_slice(&v.to_be_bytes());
        env.with(|e| e.obs.fault("item-length-field"));
    }
    let strict = w.chance(1, 2);
    let max = [1018u32, 16384, 70_000, u32::MAX - 7][w.below(4) as usize];
    let mut cur = &bytes[..];
    for _ in 0..4 {
        match read_pdu(&mut cur, max, strict) {
            Ok(Some(_)) => env.probe("read-ok"),
            Ok(None) => break,
            Err(_) => {
                env.probe("read-err");
                break;
            }
        }
    }
    let mut src = budget_src(bytes.clone(), env);
    let flag = src.over_budget.clone();
    let mut rb = BytesMut::new();
    for _ in 0..4 {
        if read_pdu_from_wire(&mut src, &mut rb, max, strict).is_err() {
            break;
        }
    }
    over(&flag, "read_pdu_from_wire")?;
    env.probe("budget-ok");
    Ok(())
}

// ------------------------------------------------------------------ images

fn rle_frame_8bit(pixels: &[u8]) -> Vec<u8> {
    // one segment, literal runs only (PS3.5 Annex G)
    let mut seg = Vec::new();
    for c in pixels.chunks(128) {
        seg.push((c.len() - 1) as u8);
        seg.extend_from_slice(c);
    }
    if seg.len() % 2 == 1 {
        seg.push(0);
    }
    let mut out = Vec::new();
    out.extend_from_slice(&1u32.to_le_bytes());
    out.extend_from_slice(&64u32.to_le_bytes());
    out.extend_from_slice(&[0u8; 56]);
    out.extend_from_slice(&seg);
    out
}

fn image_object(rows: u16, cols: u16, bits: u16, samples: u16, frames: u32, ts: &str, pixel: dicom_core::value::Value<InMemDicomObject, Vec<u8>>, vr: VR) -> dicom_object::DefaultDicomObject {
    let mut els = vec![
        DataElement::new(Tag(0x0008, 0x0016), VR::UI, PrimitiveValue::from("1.2.840.10008.5.1.4.1.1.7")),
        DataElement::new(Tag(0x0008, 0x0018), VR::UI, PrimitiveValue::from("1.2.3.4.5")),
        DataElement::new(Tag(0x0028, 0x0002), VR::US, PrimitiveValue::from(samples)),
        DataElement::new(Tag(0x0028, 0x0004), VR::CS, PrimitiveValue::from(if samples == 3 { "RGB" } else { "MONOCHROME2" })),
        DataElement::new(Tag(0x0028, 0x0008), VR::IS, PrimitiveValue::from(frames.to_string())),
        DataElement::new(Tag(0x0028, 0x0010), VR::US, PrimitiveValue::from(rows)),
        DataElement::new(Tag(0x0028, 0x0011), VR::US, PrimitiveValue::from(cols)),
        DataElement::new(Tag(0x0028, 0x0100), VR::US, PrimitiveValue::from(bits)),
        DataElement::new(Tag(0x0028, 0x0101), VR::US, PrimitiveValue::from(bits)),
        DataElement::new(Tag(0x0028, 0x0102), VR::US, PrimitiveValue::from(bits - 1)),
        DataElement::new(Tag(0x0028, 0x0103), VR::US, PrimitiveValue::from(0u16)),
        DataElement::new(Tag(0x0028, 0x1052), VR::DS, PrimitiveValue::from("-1024")),
        DataElement::new(Tag(0x0028, 0x1053), VR::DS, PrimitiveValue::from("1")),
        DataElement::new(Tag(0x0028, 0x1050), VR::DS, PrimitiveValue::from("40")),
        DataElement::new(Tag(0x0028, 0x1051), VR::DS, PrimitiveValue::from("400")),
    ];
    if samples == 3 {
        els.push(DataElement::new(Tag(0x0028, 0x0006), VR::US, PrimitiveValue::from(0u16)));
    }
    els.push(DataElement::new(Tag(0x7FE0, 0x0010), vr, pixel));
    let obj = InMemDicomObject::from_element_iter(els);
    let meta = FileMetaTableBuilder::new()
        .media_storage_sop_class_uid("1.2.840.10008.5.1.4.1.1.7")
        .media_storage_sop_instance_uid("1.2.3.4.5")
        .transfer_syntax(ts)
        .build()
        .expect("meta");
    obj.with_exact_meta(meta)
}

/// valid image files of several kinds, generated once per process
fn base_images() -> &'static Vec<(String, Vec<u8>)> {
    static IMGS: OnceLock<Vec<(String, Vec<u8>)>> = OnceLock::new();
    IMGS.get_or_init(|| {
        use dicom_core::value::Value;
        use dicom_pixeldata::Transcode;
        let mut v = Vec::new();
        let px8: Vec<u8> = (0..8 * 6).map(|i| (i * 5) as u8).collect();
        let mut push = |name: &str, f: dicom_object::DefaultDicomObject| {
            let mut b = Vec::new();
            if f.write_all(&mut b).is_ok() {
                v.push((name.to_string(), b));
            }
        };
        push("native-8", image_object(6, 8, 8, 1, 1, "1.2.840.10008.1.2.1", Value::Primitive(PrimitiveValue::U8(px8.iter().cloned().collect())), VR::OB));
        let px16: Vec<u16> = (0..8 * 6 * 2).map(|i| (i * 321) as u16).collect();
        push("native-16-2frames", image_object(6, 8, 16, 1, 2, "1.2.840.10008.1.2.1", Value::Primitive(PrimitiveValue::U16(px16.iter().cloned().collect())), VR::OW));
        let rgb: Vec<u8> = (0..8 * 6 * 3).map(|i| (i * 7) as u8).collect();
        push("native-rgb", image_object(6, 8, 8, 3, 1, "1.2.840.10008.1.2", Value::Primitive(PrimitiveValue::U8(rgb.iter().cloned().collect())), VR::OB));
        push("native-be", image_object(6, 8, 16, 1, 1, "1.2.840.10008.1.2.2", Value::Primitive(PrimitiveValue::U16(px16[..48].iter().cloned().collect())), VR::OW));
        push(
            "rle-8",
            image_object(6, 8, 8, 1, 1, "1.2.840.10008.1.2.5", Value::PixelSequence(PixelFragmentSequence::new(vec![], vec![rle_frame_8bit(&px8)])), VR::OB),
        );
        push(
            "encapsulated-uncompressed",
            image_object(6, 8, 8, 1, 1, "1.2.840.10008.1.2.1.98", Value::PixelSequence(PixelFragmentSequence::new(vec![0u32], vec![px8.clone()])), VR::OB),
        );
        // JPEG via dicom-rs' own transcoder (only a generator of valid inputs here)
        for (name, ts) in [("jpeg-baseline", &dicom_transfer_syntax_registry::entries::JPEG_BASELINE.erased()), ("jpeg-lossless", &dicom_transfer_syntax_registry::entries::JPEG_LOSSLESS_NON_HIERARCHICAL_FIRST_ORDER_PREDICTION.erased())] {
            let mut f = image_object(6, 8, 8, 1, 1, "1.2.840.10008.1.2.1", Value::Primitive(PrimitiveValue::U8(px8.iter().cloned().collect())), VR::OB);
            if f.transcode(ts).is_ok() {
                push(name, f);
            }
            let mut f = image_object(6, 8, 8, 3, 1, "1.2.840.10008.1.2.1", Value::Primitive(PrimitiveValue::U8(rgb.iter().cloned().collect())), VR::OB);
            if f.transcode(ts).is_ok() {
                push(&format!("{}-rgb", name), f);
            }
        }
        // multi-frame encapsulated images whose frames span several fragments, with a basic offset table:
        // the frame-to-fragment arithmetic of decode_pixel_data_frame only runs for these
        let px8x2: Vec<u8> = (0..8 * 6 * 2).map(|i| (i * 3) as u8).collect();
        let resplit = |f: &dicom_object::DefaultDicomObject, name: &str, parts: usize, v: &mut Vec<(String, Vec<u8>)>| {
            use dicom_core::header::Header;
            let mut f = f.clone();
            let frags: Option<Vec<Vec<u8>>> = f.element(Tag(0x7FE0, 0x0010)).ok().and_then(|e| match e.value() {
                Value::PixelSequence(s) => Some(s.fragments().to_vec()),
                _ => None,
            });
            if let Some(frags) = frags {
                let mut out = Vec::new();
                let mut bot = Vec::new();
                let mut off = 0u32;
                for fr in &frags {
                    bot.push(off);
                    let n = fr.len();
                    let step = (n / parts).max(2) & !1;
                    let mut pos = 0;
                    for k in 0..parts {
                        let end = if k + 1 == parts { n } else { (pos + step).min(n) };
                        let mut piece = fr[pos..end].to_vec();
                        if piece.len() % 2 == 1 {
                            piece.push(0);
                        }
                        off += 8 + piece.len() as u32;
                        out.push(piece);
                        pos = end;
                    }
                }
                f.put(DataElement::new(Tag(0x7FE0, 0x0010), VR::OB, Value::PixelSequence(PixelFragmentSequence::new(bot, out))));
                let mut b = Vec::new();
                if f.write_all(&mut b).is_ok() {
                    v.push((name.to_string(), b));
                }
            }
        };
        {
            let mut f = image_object(6, 8, 8, 1, 2, "1.2.840.10008.1.2.1", Value::Primitive(PrimitiveValue::U8(px8x2.iter().cloned().collect())), VR::OB);
            if f.transcode(&dicom_transfer_syntax_registry::entries::JPEG_BASELINE.erased()).is_ok() {
                resplit(&f, "jpeg-2frames-4fragments", 2, &mut v);
                resplit(&f, "jpeg-2frames-6fragments", 3, &mut v);
            }
            let f = image_object(
                6,
                8,
                8,
                1,
                2,
                "1.2.840.10008.1.2.5",
                Value::PixelSequence(PixelFragmentSequence::new(vec![], vec![rle_frame_8bit(&px8x2[..48]), rle_frame_8bit(&px8x2[48..])])),
                VR::OB,
            );
            resplit(&f, "rle-2frames-4fragments", 2, &mut v);
            let f = image_object(
                6,
                8,
                8,
                1,
                2,
                "1.2.840.10008.1.2.1.98",
                Value::PixelSequence(PixelFragmentSequence::new(vec![], vec![px8x2[..48].to_vec(), px8x2[48..].to_vec()])),
                VR::OB,
            );
            resplit(&f, "encapsulated-uncompressed-2frames-4fragments", 2, &mut v);
        }
        v
    })
}

fn run_pixeldata(w: &mut Tape, env: &EnvRef) -> RunResult {
    let imgs = base_images();
    check!(imgs.len() >= 6, "harness", "HARNESS-PANIC@c05-images", "only {} base images could be generated", imgs.len());
    let (name, bytes) = &imgs[w.below(imgs.len() as u32) as usize];
    let mut file = bytes.clone();
    env.with(|e| e.obs.note_with(|| format!("image {}", name)));
    // damage biased to the image attributes (group 0028) and the pixel data
    let n = 1 + w.below(3);
    for _ in 0..n {
        match w.below(6) {
            0 => {
                // an image attribute value: US elements of group 0028 are "28 00 xx xx 'U' 'S' 02 00 vv vv"
                let mut idx = Vec::new();
                for i in 132..file.len().saturating_sub(10) {
                    if file[i] == 0x28 && file[i + 1] == 0 && &file[i + 4..i + 6] == b"US" {
                        idx.push(i + 8);
                    }
                }
                if !idx.is_empty() {
                    let i = idx[w.below(idx.len() as u32) as usize];
                    if w.chance(1, 4) {
                        // the declared length of the attribute (2 in the valid file): a torn or misdirected write
                        // that leaves a short, odd or longer length in front of an intact value
                        let l: u16 = [0, 1, 3, 4, 6, 1, 255, 65535][w.below(8) as usize];
                        file[i - 2..i].copy_from_slice(&l.to_le_bytes());
                        env.with(|e| e.obs.fault("image-attribute-length"));
                    } else {
                        let v: u16 = [0, 1, 2, 3, 7, 8, 9, 12, 16, 17, 32, 64, 255, 256, 4096, 65535][w.below(16) as usize];
                        file[i..i + 2].copy_from_slice(&v.to_le_bytes());
                        env.with(|e| e.obs.fault("image-attribute"));
                    }
                }
            }
            1 => {
                // damage inside the pixel data (last third of the file)
                let start = file.len() * 2 / 3;
                let mut tail = file.split_off(start);
                env.with(|e| corrupt(w, &mut e.obs, &mut tail, None));
                file.extend_from_slice(&tail);
            }
            4 | 5 => {
                // an entry of the basic offset table (first item of the pixel sequence): stale, swapped, descending
                if let Some(p) = find(&file, &[0xE0, 0x7F, 0x10, 0x00, b'O', b'B', 0, 0, 0xFF, 0xFF, 0xFF, 0xFF, 0xFE, 0xFF, 0x00, 0xE0]) {
                    let len_at = p + 16;
                    if len_at + 4 <= file.len() {
                        let n = u32::from_le_bytes([file[len_at], file[len_at + 1], file[len_at + 2], file[len_at + 3]]) as usize / 4;
                        if n > 0 && len_at + 4 + 4 * n <= file.len() {
                            let k = w.below(n as u32) as usize;
                            let at = len_at + 4 + 4 * k;
                            let cur = u32::from_le_bytes([file[at], file[at + 1], file[at + 2], file[at + 3]]);
                            let v: u32 = match w.below(7) {
                                0 => 0,
                                1 => cur.wrapping_add(8),
                                2 => cur.wrapping_sub(8),
                                3 => cur / 2,
                                4 => cur.wrapping_mul(2).wrapping_add(2),
                                5 => 0xFFFF_FFF0,
                                _ => file.len() as u32,
                            };
                            file[at..at + 4].copy_from_slice(&v.to_le_bytes());
                            if k == 0 && n > 1 && w.chance(1, 2) {
                                // first entry beyond the second: a descending table
                                let nxt = u32::from_le_bytes([file[at + 4], file[at + 5], file[at + 6], file[at + 7]]);
                                file[at..at + 4].copy_from_slice(&nxt.wrapping_add(16).to_le_bytes());
                            }
                            env.with(|e| e.obs.fault("offset-table-entry"));
                        }
                    }
                }
            }
            2 => {
                // Number of Frames text
                if let Some(p) = find(&file, &[0x28, 0x00, 0x08, 0x00]) {
                    if p + 10 < file.len() {
                        let v: &[u8; 2] = [b"0 ", b"99", b"-1", b"2 ", b"1e", b"\\\\"][w.below(6) as usize];
                        let off = if &file[p + 4..p + 6] == b"IS" { p + 8 } else { p + 8 };
                        file[off..off + 2].copy_from_slice(v);
                        env.with(|e| e.obs.fault("number-of-frames"));
                    }
                }
            }
            _ => env.with(|e| corrupt(w, &mut e.obs, &mut file, None)),
        }
    }
    if crate::framework::dry() {
        return Ok(());
    }
    let src = budget_src(file, env);
    let flag = src.over_budget.clone();
    match OpenFileOptions::new().from_reader(src) {
        Ok(obj) => {
            env.probe("read-ok");
            after_read(&obj, env);
        }
        Err(_) => env.probe("read-err"),
    }
    over(&flag, "from_reader(image)")?;
    env.probe("budget-ok");
    Ok(())
}

fn run_strings(w: &mut Tape, env: &EnvRef) -> RunResult {
    // plain input mutation (no simulator dimension; said so in the evidence)
    let seeds: [&str; 16] = [
        "(0010,0010)", "0010,0010", "00100010", "PatientName", "0040A168[0].CodeValue", "(0040,A730)[1].(0040,A730)[0].0008,0100", "20240131", "202401", "235959.123456", "1200", "20240131235959.123456+0100",
        "20240131-20240229", "1200-1300", "2024-", "-20240131", "0040A168[18446744073709551615].CodeValue",
    ];
    let mut b = seeds[w.below(16) as usize].as_bytes().to_vec();
    let n = w.below(4);
    for _ in 0..n {
        if b.is_empty() {
            break;
        }
        let i = w.below(b.len() as u32) as usize;
        match w.below(6) {
            0 => b[i] = b"()[],.-+:0123456789ABCDEFabcdefxyz \\^=\0\xc3\xa9"[w.below(40) as usize],
            1 => {
                b.insert(i, b"0123456789+-.[]()"[w.below(17) as usize]);
            }
            2 => {
                b.remove(i);
            }
            3 => b.truncate(i),
            4 => {
                let d = b.clone();
                b.extend_from_slice(&d);
            }
            _ => {
                let ins = "é".as_bytes();
                b.splice(i..i, ins.iter().cloned());
            }
        }
    }
    env.with(|e| e.obs.fault("string-mutation"));
    if let Ok(s) = std::str::from_utf8(&b) {
        try_strings(s);
        env.probe("read-ok");
    } else {
        let _ = dicom_core::value::deserialize::parse_date(&b);
        let _ = dicom_core::value::deserialize::parse_time_partial(&b);
        let _ = dicom_core::value::deserialize::parse_datetime_partial(&b);
        env.probe("read-err");
    }
    env.probe("budget-ok");
    env.probe("dumped");
    env.probe("pixel-decoded");
    Ok(())
}

fn run(cfg: usize, w: &mut Tape, env: &EnvRef) -> RunResult {
    crate::PEAK_REQUEST.store(0, std::sync::atomic::Ordering::Relaxed);
    match cfg {
        0 => run_file(w, env),
        1 => run_dataset(w, env),
        2 => run_collector(w, env),
        3 => run_json(w, env),
        4 => run_pdu(w, env),
        5 => run_pixeldata(w, env),
        _ => run_strings(w, env),
    }
}
