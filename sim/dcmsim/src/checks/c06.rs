//! C06 — lazy reader and collector agree with the eager reader.

use crate::dsbuild::*;
use crate::framework::CheckDef;
use crate::simio::*;
use dcmref::ds::{self, GenCfg, MetaSpec, Syntax, Val};
use dicom_core::header::Header;
use dicom_core::Tag;
use dicom_object::file::ReadPreamble;
use dicom_object::{DicomCollectorOptions, InMemDicomObject, OpenFileOptions};
use dicom_parser::dataset::lazy_read::LazyDataSetReader;
use dicom_parser::dataset::read::DataSetReader;
use dicom_parser::dataset::DataToken;
use simcore::{check, fail, RunResult, Tape, Violation};
use std::io::BufReader;

pub fn def() -> CheckDef {
    CheckDef {
        id: "C06",
        level: "exploration",
        configs: &["lazy-vs-eager", "collector-history", "read-until-to"],
        quick_runs: 150_000,
        thorough_runs: 3_000_000,
        run,
        rule: "reference model = what the eager reader produces from a plain in-memory slice. lazy-vs-eager: the lazy token \
               reader over a seekable simulated source (seed-chosen short reads, EINTR), each value fetched or skipped by the \
               seed, must yield the eager token sequence. collector-history: a complete generated file is read by the collector \
               under a seed-drawn API-call history (read_preamble? -> read_file_meta -> k x read_dataset_up_to(increasing tags, \
               present/absent/Pixel Data) -> read_dataset_to_end | read_basic_offset_table? + read_next_fragment until None) over \
               a BufReader on the simulated source (first read from 1 byte up, cuts at portion boundaries): meta group, union of \
               portions, offset table and fragments must equal the eager object. read-until-to: OpenFileOptions::read_until / \
               read_to give exactly the elements below / up to the tag. Files in the three uncompressed syntaxes with native or \
               encapsulated pixel data (empty/non-empty offset table, zero-length fragments). distinct = distinct hashed \
               environment event sequences incl. seeks; non-trivial = a short read / EINTR / first-read cut fired",
        real: &["LazyDataSetReader", "DicomCollector (read_preamble, read_file_meta, read_dataset_up_to, read_dataset_to_end, read_basic_offset_table, read_next_fragment)", "OpenFileOptions::read_until / read_to", "DataSetReader / InMemDicomObject (reference)"],
        stub: &["seekable byte source (SimSource)", "independent file encoder producing the inputs"],
        assumptions: &["inputs are conforming files from the independent encoder (the property is stated for conforming writers)"],
        required_probes: &["collector-portions-2plus", "collector-fragments", "collector-bot-separately", "zero-length-fragment", "lazy-skip", "stop-at-absent-tag", "big-endian-offset-table"],
        net: false,
    }
}

fn chain(e: &dyn std::error::Error) -> String {
    let mut s = format!("{}", e);
    let mut cur = e.source();
    while let Some(c) = cur {
        s.push_str(&format!(" <- {}", c));
        cur = c.source();
    }
    s
}

fn harness(e: impl std::fmt::Display) -> Violation {
    Violation::new("harness", "HARNESS-PANIC@c06", format!("{}", e))
}

fn gen_file(w: &mut Tape, env: &EnvRef) -> Result<(Syntax, Vec<ds::Elem>, Vec<u8>, Vec<u8>), Violation> {
    let syn = [Syntax::ImplicitLE, Syntax::ExplicitLE, Syntax::ExplicitBE][w.below(3) as usize];
    let gcfg = GenCfg {
        max_depth: 3,
        private: true,
        pixel: true,
        // encapsulated pixel data is standard only in (little endian) explicit VR, but the readers take a pixel
        // sequence in any syntax, and the lazy reader / collector must agree with the eager reader there too
        encapsulated: true,
        all_undefined: false,
        latin1: false,
        utf8: false,
        other_cs: 0,
        nested_charset: false,
    };
    let restrict_to = |m: &[ds::Elem], _syn: Syntax| m.to_vec();
    let mut model = restrict_to(&ds::gen_dataset(w, &gcfg), syn);
    // pixel data more often than the generic generator gives it
    if !model.iter().any(|e| e.tag == ds::PIXEL_DATA) && w.chance(1, 2) {
        let mut t2 = Tape::generate(w.below(1 << 24) as u64 + 7);
        for _ in 0..6 {
            let m2 = restrict_to(&ds::gen_dataset(&mut t2, &gcfg), syn);
            if let Some(p) = m2.into_iter().find(|e| e.tag == ds::PIXEL_DATA) {
                model.push(p);
                model.sort_by_key(|e| e.tag);
                break;
            }
        }
    }
    if let Some(e) = model.iter().find(|e| e.tag == ds::PIXEL_DATA) {
        if let Val::Frags { bot, .. } = &e.val {
            if syn == Syntax::ExplicitBE && bot.iter().any(|x| *x != 0) {
                env.probe("big-endian-offset-table");
            }
        }
        if let Val::Frags { frags, .. } = &e.val {
            if frags.iter().any(|f| f.is_empty()) {
                env.probe("zero-length-fragment");
            }
        }
    }
    let (dataset, _) = ds::encode(&model, syn, None).map_err(harness)?;
    let meta = MetaSpec {
        media_sop_class: b"1.2.840.10008.5.1.4.1.1.7".to_vec(),
        media_sop_instance: if w.chance(1, 2) { b"1.2.3.4.5".to_vec() } else { b"1.2.3.4.55".to_vec() },
        transfer_syntax: syn.uid().as_bytes().to_vec(),
        impl_class_uid: b"1.2.3.999".to_vec(),
        impl_version: if w.chance(1, 2) { Some(b"REFIMPL".to_vec()) } else { None },
        source_ae: None,
    };
    let file = ds::encode_file(&meta, &dataset, true);
    Ok((syn, model, dataset, file))
}

fn short_src(data: Vec<u8>, env: &EnvRef, cuts: Vec<usize>) -> SimSource {
    SimSource::new(
        data,
        env,
        SrcCfg {
            short: true,
            interrupted: true,
            cuts,
            ..Default::default()
        },
    )
}

fn run_lazy(w: &mut Tape, env: &EnvRef) -> RunResult {
    let (syn, model, dataset, _file) = gen_file(w, env)?;
    env.with(|e| e.obs.note_with(|| format!("workload: {} {}", syn.name(), describe(&model))));
    let ts = ts_of(syn);
    let eager: Vec<DataToken> = {
        let rd = DataSetReader::new_with_ts(&dataset[..], &ts).map_err(harness)?;
        let mut v = Vec::new();
        for t in rd {
            match t {
                Ok(t) => v.push(t),
                Err(e) => fail!("eager-reads", "c06:lazy:eager-failed", "the eager reader failed on a conforming stream: {} [{}]", e, describe(&model)),
            }
        }
        v
    };
    let mut rd = LazyDataSetReader::new_with_ts(short_src(dataset.clone(), env, vec![]), &ts).map_err(harness)?;
    let mut i = 0usize;
    let style = w.below(3);
    loop {
        let tok = match rd.advance() {
            None => break,
            Some(Ok(t)) => t,
            Some(Err(e)) => fail!("lazy-equals-eager", "c06:lazy:error", "the lazy reader failed at token {} of {}: {} [{}]", i, eager.len(), e, describe(&model)),
        };
        check!(i < eager.len(), "lazy-equals-eager", "c06:lazy:extra-token", "the lazy reader yields more tokens than the eager reader ({}) [{}]", eager.len(), describe(&model));
        let is_value = matches!(tok, dicom_parser::dataset::LazyDataToken::LazyValue { .. } | dicom_parser::dataset::LazyDataToken::LazyItemValue { .. });
        if is_value && (style == 1 || (style == 2 && w.chance(1, 2))) {
            env.probe("lazy-skip");
            if let Err(e) = tok.skip() {
                fail!("lazy-equals-eager", "c06:lazy:skip-failed", "skipping value token {} failed: {}", i, e);
            }
            check!(
                matches!(eager[i], DataToken::PrimitiveValue(_) | DataToken::ItemValue(_) | DataToken::OffsetTable(_)),
                "lazy-equals-eager",
                "c06:lazy:token-kind",
                "token {}: lazy reader has a value where the eager reader has {:?}",
                i,
                eager[i]
            );
        } else {
            let owned = match tok.into_owned() {
                Ok(t) => t,
                Err(e) => fail!("lazy-equals-eager", "c06:lazy:value-failed", "fetching lazy token {} failed: {}", i, e),
            };
            let same = match (&owned, &eager[i]) {
                // the eager reader types the first item of a pixel sequence as an offset table
                (DataToken::ItemValue(a), DataToken::OffsetTable(b)) => a.len() == b.len() * 4 && a.chunks(4).zip(b.iter()).all(|(x, y)| if syn.be() { u32::from_be_bytes([x[0], x[1], x[2], x[3]]) } else { u32::from_le_bytes([x[0], x[1], x[2], x[3]]) } == *y),
                (a, b) => token_eq(a, b),
            };
            check!(same, "lazy-equals-eager", "c06:lazy:token-differs", "token {} differs: lazy {:?} vs eager {:?} [{}]", i, owned, eager[i], describe(&model));
        }
        i += 1;
    }
    check!(i == eager.len(), "lazy-equals-eager", "c06:lazy:missing-tokens", "the lazy reader yields {} tokens, the eager reader {} [{}]", i, eager.len(), describe(&model));
    Ok(())
}

/// token equality that does not trip over `Length(Undefined) != Length(Undefined)`
fn token_eq(a: &DataToken, b: &DataToken) -> bool {
    format!("{:?}", a) == format!("{:?}", b)
}

fn eager_file(file: &[u8]) -> Result<dicom_object::DefaultDicomObject, Violation> {
    OpenFileOptions::new()
        .from_reader(file)
        .map_err(|e| Violation::new("eager-reads", "c06:eager-file-failed", format!("the eager reader failed on a conforming file: {}", e)))
}

fn elems_between<'a>(obj: &'a InMemDicomObject, lo: Option<Tag>, hi: Option<Tag>) -> Vec<Tag> {
    obj.iter().map(|e| e.tag()).filter(|t| lo.map(|l| *t >= l).unwrap_or(true) && hi.map(|h| *t < h).unwrap_or(true)).collect()
}

fn run_collector(w: &mut Tape, env: &EnvRef) -> RunResult {
    let (syn, model, dataset, file) = gen_file(w, env)?;
    let reference = eager_file(&file)?;
    let with_preamble = w.chance(3, 4);
    let bytes = if with_preamble { file.clone() } else { file[128..].to_vec() };
    let ds_off = bytes.len() - dataset.len();
    let mode = match w.below(3) {
        0 => ReadPreamble::Auto,
        1 if with_preamble => ReadPreamble::Always,
        1 => ReadPreamble::Never,
        _ => ReadPreamble::Auto,
    };
    let first = match w.below(5) {
        0 => 1 + w.below(3) as usize,
        1 => 4 + w.below(128) as usize,
        2 => 132,
        _ => 0,
    };
    let mut src = short_src(bytes.clone(), env, vec![4, 128, 132, ds_off, ds_off + 8]);
    if first > 0 {
        src.cfg.first_read = first;
    }
    env.with(|e| e.obs.note_with(|| format!("workload: {} preamble={} mode={:?} first_read={} {}", syn.name(), with_preamble, mode, first, describe(&model))));
    let mut col = DicomCollectorOptions::new().read_preamble(mode).from_reader(BufReader::new(src));
    let who = format!("{}:{:?}", if with_preamble { "preamble" } else { "bare" }, mode);
    if w.chance(1, 2) {
        match col.read_preamble() {
            Ok(p) => check!(p.is_some() == with_preamble, "collector-preamble", "c06:collector:preamble-presence", "read_preamble returned {} for a file {} preamble [{}]", if p.is_some() { "Some" } else { "None" }, if with_preamble { "with" } else { "without" }, who),
            Err(e) => fail!("collector-preamble", "c06:collector:preamble-failed", "read_preamble failed on a conforming file [{}, first read {}]: {}", who, first, e),
        }
    }
    match col.read_file_meta() {
        Ok(m) => check!(m == reference.meta(), "collector-meta", "c06:collector:meta-differs", "collector meta group differs from the eager one [{}]", who),
        Err(e) => fail!("collector-meta", "c06:collector:meta-failed", "read_file_meta failed on a conforming file [{}, first read {}]: {}", who, first, e),
    }
    // portions
    let mut collected = InMemDicomObject::new_empty();
    let nport = w.below(4);
    let mut lo: Option<Tag> = None;
    let all_tags: Vec<Tag> = reference.iter().map(|e| e.tag()).collect();
    let mut reached_pixel = false;
    for _ in 0..nport {
        let stop = match w.below(4) {
            0 if !all_tags.is_empty() => all_tags[w.below(all_tags.len() as u32) as usize],
            1 => {
                env.probe("stop-at-absent-tag");
                Tag(0x0008 + 2 * w.below(0x30) as u16, 0x0001 + w.below(0x2000) as u16)
            }
            2 => Tag(0x7FE0, 0x0010),
            _ => Tag(0x0010 + w.below(0x60) as u16 * 2, 0x0000),
        };
        if let Some(l) = lo {
            if stop <= l {
                continue;
            }
        }
        let mut part = InMemDicomObject::new_empty();
        env.with(|e| e.obs.note_with(|| format!("call read_dataset_up_to({})", stop)));
        if let Err(e) = col.read_dataset_up_to(stop, &mut part) {
            fail!("collector-portions", "c06:collector:portion-failed", "read_dataset_up_to({}) failed: {} [{}]", stop, chain(&e), describe(&model));
        }
        let got: Vec<Tag> = part.iter().map(|e| e.tag()).collect();
        let want = elems_between(&reference, lo, Some(stop));
        check!(got == want, "collector-portions", "c06:collector:portion-tags", "read_dataset_up_to({}) after {:?} collected {:?}, the eager object has {:?} in that range [{}]", stop, lo, got, want, describe(&model));
        for e in part {
            collected.put(e);
        }
        lo = Some(stop);
        env.probe("collector-portions-2plus");
        if stop >= Tag(0x7FE0, 0x0010) {
            reached_pixel = true;
        }
    }
    let has_pixel = model.iter().any(|e| e.tag == ds::PIXEL_DATA);
    let frag_mode = has_pixel && !reached_pixel && lo.map(|l| l <= Tag(0x7FE0, 0x0010)).unwrap_or(true) && w.chance(1, 2);
    if frag_mode {
        env.probe("collector-fragments");
        let pe = model.iter().find(|e| e.tag == ds::PIXEL_DATA).unwrap();
        let mut expect_frags: Vec<Vec<u8>> = Vec::new();
        let mut expect_bot: Option<Vec<u32>> = None;
        match &pe.val {
            Val::Frags { bot, frags } => {
                expect_bot = Some(bot.clone());
                expect_frags = frags.clone();
            }
            Val::Prim(_) => {
                let (b, _) = ds::encode(std::slice::from_ref(pe), syn, None).map_err(harness)?;
                let hdr = if syn.explicit() { 12 } else { 8 };
                expect_frags.push(b[hdr..].to_vec());
            }
            _ => {}
        }
        let mut bot_separately = false;
        if w.chance(1, 2) {
            bot_separately = true;
            env.probe("collector-bot-separately");
            let mut t = Vec::new();
            env.with(|e| e.obs.note_with(|| "call read_basic_offset_table".to_string()));
            match col.read_basic_offset_table(&mut t) {
                Ok(r) => match &expect_bot {
                    Some(b) => {
                        check!(r.is_some(), "collector-fragments", "c06:collector:bot-none", "read_basic_offset_table returned None for encapsulated pixel data [{}]", describe(&model));
                        check!(&t == b, "collector-fragments", "c06:collector:bot-differs", "offset table {:?} differs from the eager one {:?}", t, b);
                    }
                    None => check!(r.is_none() && t.is_empty(), "collector-fragments", "c06:collector:bot-native", "read_basic_offset_table returned {:?} / {:?} for native pixel data", r, t),
                },
                Err(e) => fail!("collector-fragments", "c06:collector:bot-failed", "read_basic_offset_table failed: {} [{}]", e, describe(&model)),
            }
        }
        // documented: without a prior read_basic_offset_table the table comes first, as a fragment
        let mut expected: Vec<Vec<u8>> = Vec::new();
        if let (Some(b), false) = (&expect_bot, bot_separately) {
            // (the raw item bytes, in the byte order of the data set)
            expected.push(b.iter().flat_map(|x| if syn.be() { x.to_be_bytes() } else { x.to_le_bytes() }).collect());
        }
        // native pixel data after read_basic_offset_table: the value is still to be read
        expected.extend(expect_frags.into_iter());
        let mut got: Vec<Vec<u8>> = Vec::new();
        loop {
            let mut f = Vec::new();
            env.with(|e| e.obs.note_with(|| "call read_next_fragment".to_string()));
            match col.read_next_fragment(&mut f) {
                Ok(None) => break,
                Ok(Some(n)) => {
                    check!(n as usize == f.len(), "collector-fragments", "c06:collector:fragment-len", "read_next_fragment returned {} but appended {} bytes", n, f.len());
                    got.push(f);
                }
                Err(e) => fail!("collector-fragments", "c06:collector:fragment-failed", "read_next_fragment failed after {} fragments: {} [{}]", got.len(), chain(&e), describe(&model)),
            }
            check!(got.len() < 1000, "terminates", "c06:collector:runaway", "read_next_fragment never returns None");
        }
        check!(
            got == expected,
            "collector-fragments",
            "c06:collector:fragments-differ",
            "fragments retrieved one by one (lengths {:?}) differ from the eager object's (lengths {:?}; offset table {}) [{}]",
            got.iter().map(|f| f.len()).collect::<Vec<_>>(),
            expected.iter().map(|f| f.len()).collect::<Vec<_>>(),
            if bot_separately { "read separately" } else { "first" },
            describe(&model)
        );
    } else {
        let mut rest = InMemDicomObject::new_empty();
        env.with(|e| e.obs.note_with(|| "call read_dataset_to_end".to_string()));
        if let Err(e) = col.read_dataset_to_end(&mut rest) {
            fail!("collector-portions", "c06:collector:to-end-failed", "read_dataset_to_end failed: {} [{}]", chain(&e), describe(&model));
        }
        for e in rest {
            collected.put(e);
        }
        if let Some(d) = obj_diff(&collected, &reference, "") {
            fail!("collector-portions", "c06:collector:union-differs", "union of the collected portions differs from the eager object: {} [{}]", d, describe(&model));
        }
    }
    Ok(())
}

fn run_until(w: &mut Tape, env: &EnvRef) -> RunResult {
    let (syn, model, _dataset, file) = gen_file(w, env)?;
    let reference = eager_file(&file)?;
    let all_tags: Vec<Tag> = reference.iter().map(|e| e.tag()).collect();
    let stop = match w.below(3) {
        0 if !all_tags.is_empty() => all_tags[w.below(all_tags.len() as u32) as usize],
        1 => Tag(0x7FE0, 0x0010),
        _ => {
            env.probe("stop-at-absent-tag");
            Tag(0x0008 + 2 * w.below(0x40) as u16, 0x0001 + w.below(0x2000) as u16)
        }
    };
    let until = w.chance(1, 2);
    let src = short_src(file.clone(), env, vec![132]);
    let mut opts = if until { OpenFileOptions::new().read_until(stop) } else { OpenFileOptions::new().read_to(stop) };
    // further options that must not change what a conforming (even-length, preamble-carrying) file yields
    match w.below(4) {
        1 => opts = opts.odd_length_strategy(dicom_parser::dataset::read::OddLengthStrategy::NextEven),
        2 => opts = opts.odd_length_strategy(dicom_parser::dataset::read::OddLengthStrategy::Fail),
        3 => opts = opts.odd_length_strategy(dicom_parser::dataset::read::OddLengthStrategy::Accept),
        _ => {}
    }
    match w.below(3) {
        1 => opts = opts.read_preamble(dicom_object::file::ReadPreamble::Always),
        2 => opts = opts.read_preamble(dicom_object::file::ReadPreamble::Auto),
        _ => {}
    }
    let by_path = w.chance(1, 4);
    let got = if by_path {
        env.probe("stop-tag-by-path");
        let dir = crate::framework::sandbox_dir().join("c06files");
        std::fs::create_dir_all(&dir).map_err(harness)?;
        let path = dir.join("in.dcm");
        std::fs::write(&path, &file).map_err(harness)?;
        let r = opts.open_file(&path);
        let _ = std::fs::remove_file(&path);
        drop(src);
        r
    } else {
        opts.from_reader(src)
    };
    let got = match got {
        Ok(o) => o,
        Err(e) => fail!("read-until-to", "c06:until:failed", "{}({}) failed on a conforming file: {} [{} {}]", if until { "read_until" } else { "read_to" }, stop, e, syn.name(), describe(&model)),
    };
    let want: Vec<Tag> = all_tags.iter().cloned().filter(|t| if until { *t < stop } else { *t <= stop }).collect();
    let have: Vec<Tag> = got.iter().map(|e| e.tag()).collect();
    check!(
        have == want,
        "read-until-to",
        if until { "c06:until:elements" } else { "c06:to:elements" },
        "{}({}) yields {:?}, the whole object has {:?} in that range [{}]",
        if until { "read_until" } else { "read_to" },
        stop,
        have,
        want,
        describe(&model)
    );
    // and the values are those of the eager object
    let mut restricted = InMemDicomObject::new_empty();
    for e in reference.iter() {
        if want.contains(&e.tag()) {
            restricted.put(e.clone());
        }
    }
    if let Some(d) = obj_diff(&got, &restricted, "") {
        fail!("read-until-to", "c06:until:values", "partial read differs from the eager object: {}", d);
    }
    Ok(())
}

fn run(cfg: usize, w: &mut Tape, env: &EnvRef) -> RunResult {
    match cfg {
        0 => run_lazy(w, env),
        1 => run_collector(w, env),
        _ => run_until(w, env),
    }
}
