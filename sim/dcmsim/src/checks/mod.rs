//! The checks, one module per property.
use crate::framework::CheckDef;

pub mod c05;
pub mod c06;
pub mod c07;
pub mod c09;
pub mod c25;
pub mod c34;
pub mod dsio;
pub mod c26;
pub mod c27;
pub mod c28;
pub mod c29;
pub mod c30;
pub mod c32;
pub mod c33;

pub fn register(v: &mut Vec<CheckDef>) {
    v.push(dsio::def_c01());
    v.push(dsio::def_c02());
    v.push(dsio::def_c04());
    v.push(c05::def());
    v.push(c06::def());
    v.push(c07::def());
    v.push(c09::def());
    v.push(c25::def());
    v.push(c26::def());
    v.push(c27::def());
    v.push(c28::def());
    v.push(c29::def());
    v.push(c30::def());
    v.push(c32::def());
    v.push(c33::def());
    v.push(c34::def());
}
