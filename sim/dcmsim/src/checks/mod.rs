//! The checks, one module per property.
use crate::framework::CheckDef;

pub mod c26;

pub fn register(v: &mut Vec<CheckDef>) {
    v.push(c26::def());
}
