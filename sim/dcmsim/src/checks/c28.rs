//! C28 — the association acceptor negotiates presentation contexts by the
//! rules: real `establish` / `establish_async` on a simulated connection
//! against a scripted requestor; answer compared with an executable model.

use crate::framework::CheckDef;
use crate::nethelp::*;
use crate::simio::EnvRef;
use crate::simnet;
use dcmref::pdu::{self as rp, RAssoc, RItem, RPdu, RSub};
use dicom_ul::association::{Association, ServerAssociationOptions};
use simcore::{check, fail, RunResult, Tape, Violation};

pub fn def() -> CheckDef {
    CheckDef {
        id: "C28",
        level: "exploration",
        configs: &["sync", "async"],
        quick_runs: 60_000,
        thorough_runs: 1_500_000,
        run,
        rule: "one run = one acceptor configuration (subset of 3 abstract syntaxes, possibly empty list of transfer syntaxes incl. \
               a registered-but-unsupported and an unknown one, promiscuous on/off, AcceptAny / AcceptCalledAeTitle, maximum PDU \
               length) x one association request built by the independent PS3.8 encoder (1-4, rarely up to 40, contexts with odd \
               ids, abstract and transfer syntax UIDs incl. NUL- and space-padded spellings, protocol version, application context \
               name, AE titles, Maximum Length absent / 0 / small / huge, role selection, extended negotiation, user identity), \
               sent by a stub requestor node to the real acceptor node (ServerAssociationOptions::establish or establish_async on \
               a real TcpStream whose descriptor is simulated) under a seed-chosen schedule: node interleaving, short sends, \
               partial deliveries, short receives. Oracle: the bytes the acceptor put on the wire (independent parser) and the \
               accessors of the returned association equal what an executable negotiation model computes. distinct = distinct \
               hashed scheduler event sequences; non-trivial = a non-default scheduling/segmentation decision fired",
        real: &["ServerAssociationOptions::establish / establish_async (whole body: read_pdu_from_wire, process_a_association_rq, choose_ts, access control, write_pdu)", "ServerAssociation / AsyncServerAssociation accessors", "std::net::TcpStream, tokio::net::TcpStream, mio, tokio current-thread runtime"],
        stub: &["requestor (independent PS3.8 encoder, raw socket calls)", "TCP/IP and socket buffers (simulated byte queues behind interposed recv/send/epoll_wait)", "negotiation model (oracle)"],
        assumptions: &["registry support is the one of this harness build (deflate feature on, so no registered syntax is unsupported): Implicit/Explicit VR LE, JPEG baseline, JPEG 2000 supported; 1.2.3.4.5.6 unknown, hence unsupported", "a rejection for protocol version may use reason (1,1) as dicom-rs does or (2,2) as PS3.8 suggests; both are accepted"],
        required_probes: &["accepted", "rejected-association", "abstract-not-supported", "ts-not-supported", "padded-uid", "max-length-absent", "max-length-zero", "request-split-across-reads"],
        net: true,
    }
}

const AS: [&str; 3] = ["1.2.840.10008.5.1.4.1.1.2", "1.2.840.10008.5.1.4.1.1.4", "1.2.840.10008.5.1.4.1.1.7"];
const TS_IVLE: &str = "1.2.840.10008.1.2";
const TS_EVLE: &str = "1.2.840.10008.1.2.1";
const TS_JPEG: &str = "1.2.840.10008.1.2.4.50";
const TS_J2K: &str = "1.2.840.10008.1.2.4.90"; // registered, pixel codec absent in this build (still supported for negotiation)
const TS_UNK: &str = "1.2.3.4.5.6";
const APP_CTX: &str = "1.2.840.10008.3.1.1.1";

fn supported(ts: &str) -> bool {
    // "supported" = known to the registry and readable as a data set (an encapsulated syntax without a
    // pixel codec still counts); with the deflate feature on, every registered syntax is supported
    matches!(ts, TS_IVLE | TS_EVLE | TS_JPEG | TS_J2K)
}

fn trim_uid(b: &[u8]) -> String {
    let mut e = b.len();
    while e > 0 && (b[e - 1] == 0 || b[e - 1] == b' ' || b[e - 1] == b'\t' || b[e - 1] == b'\n') {
        e -= 1;
    }
    String::from_utf8_lossy(&b[..e]).to_string()
}

#[derive(Clone, Debug)]
pub struct AccCfg {
    pub abstracts: Vec<&'static str>,
    pub transfers: Vec<&'static str>,
    pub promiscuous: bool,
    pub check_called: bool,
    pub ae_title: &'static str,
    pub max_pdu: u32,
    pub strict: bool,
}

pub fn gen_cfg(w: &mut Tape) -> AccCfg {
    let mut abstracts = Vec::new();
    for a in AS {
        if w.chance(1, 2) {
            abstracts.push(a);
        }
    }
    let promiscuous = w.chance(1, 4);
    if abstracts.is_empty() && !promiscuous {
        abstracts.push(AS[0]);
    }
    let mut transfers = Vec::new();
    if w.chance(2, 3) {
        for t in [TS_IVLE, TS_EVLE, TS_JPEG, TS_J2K, TS_UNK] {
            if w.chance(1, 2) {
                transfers.push(t);
            }
        }
    }
    AccCfg {
        abstracts,
        transfers,
        promiscuous,
        check_called: w.chance(1, 3),
        ae_title: ["STORE-SCP", "ACC"][w.below(2) as usize],
        max_pdu: [16384, 1018, 32762, 65536][w.below(4) as usize],
        strict: w.chance(1, 2),
    }
}

fn pad(w: &mut Tape, s: &str, env: &EnvRef) -> Vec<u8> {
    let mut v = s.as_bytes().to_vec();
    match w.weighted(&[6, 1, 1]) {
        0 => {}
        1 => {
            v.push(0);
            env.probe("padded-uid");
        }
        _ => {
            v.push(b' ');
            env.probe("padded-uid");
        }
    }
    v
}

pub struct Req {
    pub assoc: RAssoc,
    pub max_len: Option<u32>,
}

pub fn gen_request(w: &mut Tape, env: &EnvRef, cfg: &AccCfg) -> Req {
    let version: u16 = if w.chance(1, 10) { [0u16, 2, 3, 0x8001][w.below(4) as usize] } else { 1 };
    let app: &str = if w.chance(1, 12) { "1.2.840.10008.3.1.1.2" } else { APP_CTX };
    let called: &str = if w.chance(2, 3) { cfg.ae_title } else { ["OTHER", "STORE-SCP", "ANY-SCP"][w.below(3) as usize] };
    let calling = ["THIS-SCU", "A", "SIXTEEN-CHARS-AET"[..16].as_ref()][w.below(3) as usize];
    let n = match w.weighted(&[5, 3, 1]) {
        0 => 1,
        1 => 2 + w.below(3),
        _ => 5 + w.below(36),
    };
    let mut items = vec![RItem::AppCtx(app.as_bytes().to_vec())];
    for i in 0..n {
        let a = AS[w.below(3) as usize];
        let nts = 1 + w.below(3);
        let mut subs = vec![RSub { ty: 0x30, data: pad(w, a, env) }];
        for _ in 0..nts {
            let t = [TS_IVLE, TS_EVLE, TS_JPEG, TS_J2K, TS_UNK][w.below(5) as usize];
            subs.push(RSub { ty: 0x40, data: pad(w, t, env) });
        }
        items.push(RItem::PcProposed {
            id: ((2 * i + 1) % 256) as u8,
            subs,
        });
    }
    let mut ui = Vec::new();
    let max_len = match w.weighted(&[4, 1, 1, 1, 1]) {
        0 => Some(16384u32),
        1 => {
            env.probe("max-length-absent");
            None
        }
        2 => {
            env.probe("max-length-zero");
            Some(0)
        }
        3 => Some(1018 + w.below(100)),
        _ => Some(u32::MAX - w.below(8)),
    };
    if let Some(m) = max_len {
        ui.push(rp::sub_max_length(m));
    }
    ui.push(rp::sub_impl_class_uid(b"1.2.3.999"));
    if w.chance(1, 2) {
        ui.push(rp::sub_impl_version(b"REFIMPL"));
    }
    if w.chance(1, 4) {
        ui.push(rp::sub_role(AS[0].as_bytes(), 1, w.below(2) as u8).unwrap());
    }
    if w.chance(1, 4) {
        ui.push(rp::sub_ext_neg(AS[1].as_bytes(), &[1, 2, 3]).unwrap());
    }
    if w.chance(1, 5) {
        ui.push(rp::sub_user_identity(1 + w.below(5) as u8, w.below(2) as u8, b"user", b"").unwrap());
    }
    items.push(RItem::UserInfo(ui));
    Req {
        assoc: RAssoc {
            version,
            called: called.as_bytes().to_vec(),
            calling: calling.as_bytes().to_vec(),
            items,
        },
        max_len,
    }
}

#[derive(Debug, PartialEq, Clone)]
pub enum Expected {
    /// (result, [(source, reason) alternatives])
    Reject(Vec<(u8, u8)>),
    /// per context: (id, reason code, accepted transfer syntax (trimmed) if accepted)
    Accept(Vec<(u8, u8, Option<String>)>),
}

/// the executable negotiation model (written from the property text / PS3.8)
pub fn model(cfg: &AccCfg, req: &RAssoc) -> Expected {
    if req.version != 1 {
        return Expected::Reject(vec![(1, 1), (2, 2)]);
    }
    let app = req.items.iter().find_map(|i| if let RItem::AppCtx(a) = i { Some(a.clone()) } else { None }).unwrap_or_default();
    if app != APP_CTX.as_bytes() {
        return Expected::Reject(vec![(1, 2)]);
    }
    if cfg.check_called {
        let called = trim_uid(&req.called);
        if called.trim() != cfg.ae_title {
            return Expected::Reject(vec![(1, 7)]);
        }
    }
    let mut out = Vec::new();
    for it in &req.items {
        if let RItem::PcProposed { id, subs } = it {
            let abs = subs.iter().find(|s| s.ty == 0x30).map(|s| trim_uid(&s.data)).unwrap_or_default();
            if !cfg.promiscuous && !cfg.abstracts.iter().any(|a| *a == abs) {
                out.push((*id, 3, None));
                continue;
            }
            let chosen = subs.iter().filter(|s| s.ty == 0x40).map(|s| trim_uid(&s.data)).find(|t| (cfg.transfers.is_empty() || cfg.transfers.iter().any(|c| c == t)) && supported(t));
            match chosen {
                Some(t) => out.push((*id, 0, Some(t))),
                None => out.push((*id, 4, None)),
            }
        }
    }
    Expected::Accept(out)
}

#[derive(Default, Clone)]
pub struct AccResult {
    pub done: bool,
    pub ok: bool,
    pub err: String,
    pub contexts: Vec<(u8, u8, String, String)>,
    pub requestor_max: u32,
    pub acceptor_max: u32,
    pub peer_ae: String,
}

fn build_options(cfg: &AccCfg) -> ServerAssociationOptions<'static, dicom_ul::association::server::AcceptAny, dicom_ul::association::server::DefaultNegotiation> {
    let mut o = ServerAssociationOptions::new().ae_title(cfg.ae_title).max_pdu_length(cfg.max_pdu).strict(cfg.strict).promiscuous(cfg.promiscuous);
    for a in &cfg.abstracts {
        o = o.with_abstract_syntax(*a);
    }
    for t in &cfg.transfers {
        o = o.with_transfer_syntax(*t);
    }
    o
}

fn reason_code(r: &dicom_ul::pdu::PresentationContextResultReason) -> u8 {
    crate::convert::result_reason_code(r)
}

macro_rules! record {
    ($res:expr, $r:expr) => {{
        let mut g = $res.lock().unwrap();
        g.done = true;
        match $r {
            Ok(a) => {
                g.ok = true;
                g.contexts = a.presentation_contexts().iter().map(|p| (p.id, reason_code(&p.reason), p.transfer_syntax.clone(), p.abstract_syntax.clone())).collect();
                g.requestor_max = a.requestor_max_pdu_length();
                g.acceptor_max = a.acceptor_max_pdu_length();
                g.peer_ae = a.peer_ae_title().to_string();
            }
            Err(e) => {
                g.ok = false;
                g.err = format!("{}", e);
            }
        }
    }};
}

/// spawn the real acceptor on the given descriptor
pub fn spawn_acceptor(cfg: &AccCfg, fd: i32, is_async: bool, res: &Shared<AccResult>) -> i32 {
    let cfg = cfg.clone();
    let res = res.clone();
    simnet::spawn_node("acceptor", is_async, move || {
        if is_async {
            let rt = async_rt();
            rt.block_on(async {
                let stream = tokio_stream(fd);
                if cfg.check_called {
                    let o = build_options(&cfg).accept_called_ae_title();
                    let r = o.establish_async(stream).await;
                    record!(res, r);
                } else {
                    let o = build_options(&cfg);
                    let r = o.establish_async(stream).await;
                    record!(res, r);
                }
            });
        } else {
            let stream = std_stream(fd);
            if cfg.check_called {
                let o = build_options(&cfg).accept_called_ae_title();
                let r = o.establish(stream);
                record!(res, r);
            } else {
                let o = build_options(&cfg);
                let r = o.establish(stream);
                record!(res, r);
            }
        }
    })
}

fn run(cfgi: usize, w: &mut Tape, env: &EnvRef) -> RunResult {
    let is_async = cfgi == 1;
    let cfg = gen_cfg(w);
    let req = gen_request(w, env, &cfg);
    let bytes = rp::encode(&RPdu::AssocRq(req.assoc.clone())).map_err(|e| Violation::new("harness", "HARNESS-PANIC@c28", e))?;
    let expect = model(&cfg, &req.assoc);
    env.with(|e| e.obs.note_with(|| format!("acceptor {:?}; request v{} called {:?} {} contexts max_len {:?}; expect {:?}", cfg, req.assoc.version, String::from_utf8_lossy(&req.assoc.called), req.assoc.items.len() - 2, req.max_len, expect)));

    simnet::begin(env, w.below(1 << 30) as u64);
    let conn = simnet::connection(None);
    let res = shared(AccResult::default());
    let afd = simnet::fd_of(conn.a);
    let rfd = simnet::fd_of(conn.b);
    spawn_acceptor(&cfg, afd, is_async, &res);
    let reply: Shared<Vec<u8>> = shared(Vec::new());
    let reply2 = reply.clone();
    let req_bytes = bytes.clone();
    simnet::spawn_node("requestor-stub", false, move || {
        raw_send_all(rfd, &req_bytes);
        let mut buf = Vec::new();
        if let Some((t, body)) = raw_recv_pdu(rfd, &mut buf) {
            let mut g = reply2.lock().unwrap();
            g.push(t);
            g.extend_from_slice(&body);
        }
        raw_close(rfd);
    });
    let rep = simnet::run(20_000);
    let end = simnet::end();
    if end.needs_restart {
        simnet::request_restart();
    }
    for n in &end.nodes {
        if let Some(p) = &n.panicked {
            fail!("no-panic", format!("c28:panic:{}", n.name), "node {} panicked: {}", n.name, p);
        }
    }
    check!(rep.finished, "terminates", "c28:stuck", "nodes did not finish: {:?} after {} steps", rep.stuck, rep.steps);
    // probe: was the request seen by the acceptor over several reads?
    if end.eps[conn.a].recv_marks.len() > 1 {
        env.probe("request-split-across-reads");
    }
    // strict mode applies the maximum PDU length to the request itself: then no negotiation takes place
    if cfg.strict && bytes.len() - 6 > cfg.max_pdu as usize {
        let r = res.lock().unwrap().clone();
        check!(r.done && !r.ok, "strict-too-long", "c28:strict-accepted-too-long", "strict acceptor (max {}) accepted a request PDU of length {}", cfg.max_pdu, bytes.len() - 6);
        env.probe("strict-request-too-long");
        return Ok(());
    }
    let (pdus, partial) = wire_pdus(&end.eps[conn.a]);
    check!(partial == 0, "wire-framing", "c28:partial-pdu", "the acceptor left {} bytes of an incomplete PDU on the wire", partial);
    check!(pdus.len() == 1, "one-answer", "c28:answer-count", "the acceptor sent {} PDUs in answer to one request", pdus.len());
    let answer = match &pdus[0] {
        Ok(p) => p.clone(),
        Err(e) => fail!("wire-framing", "c28:answer-invalid", "the acceptor's answer is not structurally valid: {}", e),
    };
    let r = res.lock().unwrap().clone();
    check!(r.done, "terminates", "c28:no-result", "establish did not return");
    match (&expect, &answer) {
        (Expected::Reject(alts), RPdu::AssocRj { result, source, reason }) => {
            env.probe("rejected-association");
            check!(!r.ok, "rejection", "c28:reject-but-ok", "A-ASSOCIATE-RJ sent but establish returned Ok");
            check!(
                alts.iter().any(|(s, x)| s == source && x == reason) && *result == 1,
                "rejection",
                "c28:reject-reason",
                "rejected with result {} source {} reason {}, the model expects (source, reason) in {:?}",
                result,
                source,
                reason,
                alts
            );
        }
        (Expected::Accept(ctxs), RPdu::AssocAc(ac)) => {
            env.probe("accepted");
            check!(r.ok, "acceptance", "c28:ac-but-err", "A-ASSOCIATE-AC sent but establish returned Err: {}", r.err);
            let got: Vec<(u8, u8, String)> = ac
                .items
                .iter()
                .filter_map(|i| if let RItem::PcResult { id, reason, subs } = i { Some((*id, *reason, subs.iter().find(|s| s.ty == 0x40).map(|s| trim_uid(&s.data)).unwrap_or_default())) } else { None })
                .collect();
            check!(got.len() == ctxs.len(), "one-result-per-context", "c28:result-count", "{} results for {} proposed contexts", got.len(), ctxs.len());
            for (g, e) in got.iter().zip(ctxs.iter()) {
                check!(g.0 == e.0, "one-result-per-context", "c28:result-id", "result id {} where context {} was proposed", g.0, e.0);
                if e.1 == 3 {
                    env.probe("abstract-not-supported");
                }
                if e.1 == 4 {
                    env.probe("ts-not-supported");
                }
                check!(g.1 == e.1, "negotiation-rule", format!("c28:reason:{}-instead-of-{}", g.1, e.1), "context {}: result/reason {} but the rules give {} [{:?}]", g.0, g.1, e.1, cfg);
                if let Some(ts) = &e.2 {
                    check!(&g.2 == ts, "negotiation-rule", "c28:chosen-ts", "context {}: accepted transfer syntax {} but the first acceptable proposed one is {} [{:?}]", g.0, g.2, ts, cfg);
                }
            }
            // the returned association agrees with what went on the wire
            check!(r.contexts.len() == ctxs.len(), "accessors", "c28:accessor-count", "presentation_contexts() has {} entries, {} were proposed", r.contexts.len(), ctxs.len());
            for (g, e) in r.contexts.iter().zip(ctxs.iter()) {
                check!(g.0 == e.0 && g.1 == e.1, "accessors", "c28:accessor-result", "presentation_contexts(): context {} reason {} but the rules give {} / {}", g.0, g.1, e.0, e.1);
                if let Some(ts) = &e.2 {
                    check!(g.2.trim_end_matches(['\0', ' ']) == ts, "accessors", "c28:accessor-ts", "presentation_contexts(): context {} transfer syntax {:?}, expected {}", g.0, g.2, ts);
                }
            }
            let want_max = match req.max_len {
                None => 32762u32,
                Some(0) => (u32::MAX & !1) - 6,
                Some(m) => m.min((u32::MAX & !1) - 6),
            };
            check!(r.requestor_max == want_max, "max-pdu", "c28:requestor-max", "requestor_max_pdu_length() = {} but the request says {:?} (expected {})", r.requestor_max, req.max_len, want_max);
            check!(r.acceptor_max == cfg.max_pdu, "max-pdu", "c28:acceptor-max", "acceptor_max_pdu_length() = {} configured {}", r.acceptor_max, cfg.max_pdu);
            check!(rp::find_max_length(ac) == Some(cfg.max_pdu), "max-pdu", "c28:ac-max-length", "A-ASSOCIATE-AC advertises maximum length {:?}, configured {}", rp::find_max_length(ac), cfg.max_pdu);
        }
        (e, a) => fail!("answer-kind", "c28:wrong-answer-kind", "the model expects {:?} but the acceptor answered {}", e, crate::convert::short(a)),
    }
    Ok(())
}
