//! C33 — the storage SCU sends each file on a matching presentation context.

use crate::checks::dsio::{deflate, inflate};
use crate::dimse::{self, Command, Frag};
use crate::dsbuild::{describe, Lookups};
use crate::framework::{sandbox_dir, CheckDef};
use crate::nethelp::*;
use crate::simio::EnvRef;
use crate::simnet;
use dcmref::ds::{self, Elem, GenCfg, PElem, PVal, Prim, Syntax, Val};
use dcmref::pdu::{self as rp, RAssoc, RItem, RPdu, RSub};
use simcore::{check, fail, RunResult, Tape, Violation};

pub fn def() -> CheckDef {
    CheckDef {
        id: "C33",
        level: "exploration",
        configs: &["sync"],
        quick_runs: 24_000,
        thorough_runs: 1_000_000,
        run,
        rule: "one run = the real storescu run(app) body (arguments parsed by the tool's own clap definition: files, address, \
               maximum PDU length, never-transcode, fail-first drawn per run) as a node connecting through an interposed \
               connect() to a recording acceptor node (independent PS3.8/PS3.7 codec) with a seed-drawn policy: per SOP class \
               accept all / reject all / per-context coin, results possibly in another order, advertised maximum length, \
               response status. The files (1..4, written to a per-worker sandbox) have seed-drawn SOP classes (including \
               prefix-related UIDs: CT / Enhanced CT, MR / Enhanced MR), transfer syntaxes (implicit/explicit LE, explicit \
               BE, deflated, encapsulated RLE/JPEG with opaque fragments, RLE with a decodable image) and data sets; a file \
               that is not DICOM may be among them. The seeded scheduler decides node interleaving, send sizes, delivery \
               segmentation and receive sizes. Oracles over the recorded P-DATA stream: every C-STORE message is well formed \
               (command then data on the same context, fragments not interleaved), names a file of the set (by instance UID) at \
               most once, travels on a context the acceptor accepted whose proposed abstract syntax equals the file's SOP \
               class, carries that class in the command, and its data bytes parse in the context's accepted transfer syntax \
               (after inflating when deflated) to the file's data set: identical when the transfer syntax is the file's, \
               re-encoded (pixel data decoded for the RLE image) otherwise; the tool does not panic and returns or exits. \
               distinct = distinct hashed scheduler event sequences; non-trivial = a non-default scheduling or segmentation \
               decision fired",
        real: &["storescu: run(app), check_files, check_file, get_scu_options, check_presentation_contexts, into_ts, store_sync::inner, send_file, App (clap) argument parsing", "ClientAssociationOptions::establish_with, send, send_pdata, receive, release, abort", "open_file / OpenFileOptions (real file system in a per-worker sandbox), Transcode, write_dataset_with_ts", "std TcpStream"],
        stub: &["TCP/IP (simulated queues)", "the recording acceptor (scripted, independent codec)", "the progress bar's ticker thread runs outside the simulator (it touches no simulated state)"],
        assumptions: &["the asynchronous mode (--concurrency) re-parses the process arguments (App::parse()) inside run_async and cannot be given per-run arguments in-process: only the synchronous mode is simulated; both modes share check_presentation_contexts and into_ts", "--ignore-sop-class is not used (it waives the property by request)", "the harness links the tool sources with dicom-pixeldata/transfer-syntax-registry features native+deflate, without rayon"],
        required_probes: &["sent-own-ts", "sent-transcoded", "sent-transcoded-rle-image", "class-rejected-other-accepted", "prefix-related-classes", "file-not-sent", "tool-exit", "not-dicom-file", "response-failure"],
        net: true,
    }
}

const CT: &str = "1.2.840.10008.5.1.4.1.1.2";
const ECT: &str = "1.2.840.10008.5.1.4.1.1.2.1";
const MR: &str = "1.2.840.10008.5.1.4.1.1.4";
const EMR: &str = "1.2.840.10008.5.1.4.1.1.4.1";
const SC: &str = "1.2.840.10008.5.1.4.1.1.7";
const CLASSES: &[&str] = &[CT, ECT, MR, EMR, SC];
const TS_IMPL: &str = "1.2.840.10008.1.2";
const TS_EXPL: &str = "1.2.840.10008.1.2.1";
const TS_BE: &str = "1.2.840.10008.1.2.2";
const TS_DEFL: &str = "1.2.840.10008.1.2.1.99";
const TS_RLE: &str = "1.2.840.10008.1.2.5";
const TS_JPEG: &str = "1.2.840.10008.1.2.4.50";

fn harness(e: impl std::fmt::Display) -> Violation {
    Violation::new("harness", "harness", format!("harness: {}", e))
}

fn syntax_of(ts: &str) -> Option<(Syntax, bool)> {
    match ts {
        TS_IMPL => Some((Syntax::ImplicitLE, false)),
        TS_EXPL | TS_RLE | TS_JPEG => Some((Syntax::ExplicitLE, false)),
        TS_BE => Some((Syntax::ExplicitBE, false)),
        TS_DEFL => Some((Syntax::ExplicitLE, true)),
        _ => None,
    }
}

#[derive(Clone, Debug)]
struct FileSpec {
    class: String,
    instance: String,
    ts: String,
    model: Vec<Elem>,
    /// for the decodable RLE image: the native pixel bytes
    rle_native: Option<Vec<u8>>,
}

fn put(model: &mut Vec<Elem>, tag: ds::Tag, vr: &[u8; 2], val: Prim) {
    model.retain(|e| e.tag != tag);
    let pos = model.iter().position(|e| e.tag > tag).unwrap_or(model.len());
    model.insert(pos, Elem { tag, vr: *vr, val: Val::Prim(val) });
}

/// PS3.5 Annex G RLE of one monochrome frame (one segment per byte of a sample, most significant first;
/// literal runs only)
fn rle_frame(px_le: &[u8], bytes_per_sample: usize) -> Vec<u8> {
    let mut segs: Vec<Vec<u8>> = Vec::new();
    for b in (0..bytes_per_sample).rev() {
        let plane: Vec<u8> = px_le.chunks(bytes_per_sample).map(|c| c[b]).collect();
        let mut seg = Vec::new();
        for chunk in plane.chunks(128) {
            seg.push((chunk.len() - 1) as u8);
            seg.extend_from_slice(chunk);
        }
        if seg.len() % 2 == 1 {
            seg.push(0);
        }
        segs.push(seg);
    }
    let mut out = vec![0u8; 64];
    out[0..4].copy_from_slice(&(segs.len() as u32).to_le_bytes());
    let mut off = 64u32;
    for (i, s) in segs.iter().enumerate() {
        out[4 + 4 * i..8 + 4 * i].copy_from_slice(&off.to_le_bytes());
        off += s.len() as u32;
    }
    for s in segs {
        out.extend_from_slice(&s);
    }
    out
}

fn gen_file(w: &mut Tape, k: usize) -> FileSpec {
    let class = CLASSES[w.weighted(&[3, 3, 2, 2, 2]) as usize].to_string();
    let kind = w.weighted(&[3, 3, 2, 2, 1, 1, 2]);
    let ts = [TS_IMPL, TS_EXPL, TS_BE, TS_DEFL, TS_RLE, TS_JPEG, TS_RLE][kind as usize].to_string();
    let instance = format!("1.2.826.0.1.3680043.7.{}", 40 + k);
    let gcfg = GenCfg { private: false, pixel: false, encapsulated: false, latin1: w.chance(1, 5), max_depth: 2, ..Default::default() };
    let mut model: Vec<Elem> = ds::gen_dataset(w, &gcfg);
    model.retain(|e| e.tag.0 != 0x7FE0 && !(e.tag.0 == 0x0028 && e.tag.1 < 0x0200));
    put(&mut model, (0x0008, 0x0016), b"UI", Prim::Text(class.as_bytes().to_vec()));
    put(&mut model, (0x0008, 0x0018), b"UI", Prim::Text(instance.as_bytes().to_vec()));
    let mut rle_native = None;
    if kind == 6 {
        // a decodable single-frame 8- or 16-bit monochrome image
        let rows = 1 + w.below(6) as u16;
        let cols = 1 + w.below(9) as u16;
        let bps: usize = 1 + w.below(2) as usize;
        let px: Vec<u8> = (0..rows as usize * cols as usize * bps).map(|i| (i as u8).wrapping_mul(37).wrapping_add(k as u8 + 1)).collect();
        put(&mut model, (0x0028, 0x0002), b"US", Prim::U16(vec![1]));
        put(&mut model, (0x0028, 0x0004), b"CS", Prim::Text(b"MONOCHROME2".to_vec()));
        put(&mut model, (0x0028, 0x0010), b"US", Prim::U16(vec![rows]));
        put(&mut model, (0x0028, 0x0011), b"US", Prim::U16(vec![cols]));
        put(&mut model, (0x0028, 0x0100), b"US", Prim::U16(vec![8 * bps as u16]));
        put(&mut model, (0x0028, 0x0101), b"US", Prim::U16(vec![8 * bps as u16]));
        put(&mut model, (0x0028, 0x0102), b"US", Prim::U16(vec![8 * bps as u16 - 1]));
        put(&mut model, (0x0028, 0x0103), b"US", Prim::U16(vec![0]));
        model.push(Elem { tag: (0x7FE0, 0x0010), vr: *b"OB", val: Val::Frags { bot: vec![], frags: vec![rle_frame(&px, bps)] } });
        rle_native = Some(px);
    } else if kind == 4 || kind == 5 {
        // opaque fragments
        let n = 1 + w.below(3) as usize;
        let frags: Vec<Vec<u8>> = (0..n).map(|i| simcore::pattern_bytes((k * 7 + i) as u32, 2 * (1 + w.below(40) as usize))).collect();
        model.push(Elem { tag: (0x7FE0, 0x0010), vr: *b"OB", val: Val::Frags { bot: vec![], frags } });
    }
    FileSpec { class, instance, ts, model, rle_native }
}

/// compare parsed element trees ignoring the VR spelled on the wire
fn strip(p: &[PElem]) -> Vec<(ds::Tag, PValS)> {
    p.iter()
        .map(|e| {
            (
                e.tag,
                match &e.val {
                    PVal::Bytes(b) => PValS::Bytes(b.clone()),
                    PVal::Seq(items) => PValS::Seq(items.iter().map(|i| strip(i)).collect()),
                    PVal::Frags(f) => PValS::Frags(f.clone()),
                },
            )
        })
        .collect()
}

fn first_diff(a: &[(ds::Tag, PValS)], b: &[(ds::Tag, PValS)]) -> String {
    for (x, y) in a.iter().zip(b.iter()) {
        if x != y {
            let show = |v: &(ds::Tag, PValS)| {
                let s = format!("{:?}", v.1);
                format!("({:04X},{:04X}) {}", v.0 .0, v.0 .1, if s.len() > 160 { format!("{}...", &s[..160]) } else { s })
            };
            return format!("sent {} / expected {}", show(x), show(y));
        }
    }
    format!("sent {} elements / expected {} elements; extra tags: {:?}", a.len(), b.len(), if a.len() > b.len() { a[b.len()..].iter().map(|x| x.0).collect::<Vec<_>>() } else { b[a.len()..].iter().map(|x| x.0).collect::<Vec<_>>() })
}

#[derive(Clone, Debug, PartialEq)]
enum PValS {
    Bytes(Vec<u8>),
    Seq(Vec<Vec<(ds::Tag, PValS)>>),
    Frags(Vec<Vec<u8>>),
}

#[derive(Clone, Debug, Default)]
struct Recorded {
    proposed: Vec<(u8, String, Vec<String>)>,
    accepted: Vec<(u8, String)>,
    /// (ctx, command bytes, data bytes)
    messages: Vec<(u8, Vec<u8>, Vec<u8>)>,
    errors: Vec<String>,
    released: bool,
    aborted: bool,
    note: String,
    rejected_classes: Vec<String>,
    statuses: Vec<u16>,
}

fn run(_cfgi: usize, w: &mut Tape, env: &EnvRef) -> RunResult {
    let base = sandbox_dir();
    let _ = std::fs::remove_dir_all(&base);
    let in_dir = base.join("in");
    std::fs::create_dir_all(&in_dir).map_err(harness)?;

    // ---- files
    let nfiles = 1 + w.below(4) as usize;
    let mut files: Vec<FileSpec> = Vec::new();
    let mut paths: Vec<String> = Vec::new();
    for k in 0..nfiles {
        let f = gen_file(w, k);
        let (syn, deflated) = syntax_of(&f.ts).unwrap();
        let (bytes, _) = ds::encode(&f.model, syn, None).map_err(harness)?;
        let body = if deflated { deflate(&bytes) } else { bytes };
        let meta = ds::MetaSpec {
            media_sop_class: f.class.as_bytes().to_vec(),
            media_sop_instance: f.instance.as_bytes().to_vec(),
            transfer_syntax: f.ts.as_bytes().to_vec(),
            impl_class_uid: b"1.2.3.999".to_vec(),
            impl_version: None,
            source_ae: None,
        };
        let file = ds::encode_file(&meta, &body, true);
        let p = in_dir.join(format!("f{}.dcm", k));
        std::fs::write(&p, &file).map_err(harness)?;
        paths.push(p.display().to_string());
        files.push(f);
    }
    if w.chance(1, 6) {
        let p = in_dir.join("notes.txt");
        std::fs::write(&p, b"this is not a DICOM file at all, just some text that is long enough to be read as a header........................................................................................").map_err(harness)?;
        let at = w.below(paths.len() as u32 + 1) as usize;
        paths.insert(at, p.display().to_string());
        env.probe("not-dicom-file");
    }
    {
        let cls: Vec<&str> = files.iter().map(|f| f.class.as_str()).collect();
        if (cls.contains(&CT) && cls.contains(&ECT)) || (cls.contains(&MR) && cls.contains(&EMR)) {
            env.probe("prefix-related-classes");
        }
    }

    // ---- tool arguments
    let never_transcode = w.chance(1, 4);
    let fail_first = w.chance(1, 4);
    let max_pdu = [16378u32, 1018, 4096, 65536][w.below(4) as usize];
    let mut args: Vec<String> = vec!["storescu".into(), ["10.0.0.1:104", "STORE-SCP@10.0.0.1:104"][w.below(2) as usize].into()];
    args.extend(paths.iter().cloned());
    args.push("--max-pdu-length".into());
    args.push(max_pdu.to_string());
    if never_transcode {
        args.push("--never-transcode".into());
    }
    if fail_first {
        args.push("--fail-first".into());
    }

    // ---- acceptor policy
    let policy_seed = w.below(1 << 30) as u64;
    let policy_mode = w.weighted(&[2, 3, 3, 1]); // accept all / per class / per context / implicit only
    let adv_max = [16384u32, 0, 1018, 4096, 65536][w.below(5) as usize];
    let shuffle_results = w.chance(1, 3);
    let bad_status = if w.chance(1, 5) { Some([0xB000u16, 0xA700, 0xFE00, 0xFF00, 0x0110][w.below(5) as usize]) } else { None };
    env.with(|e| {
        e.obs.note_with(|| {
            format!(
                "files {:?}; args {:?}; policy mode {} adv_max {} shuffle {} bad_status {:?}",
                files.iter().map(|f| format!("{}:{}{}", f.class.rsplit('.').take(2).collect::<Vec<_>>().join("."), f.ts.rsplit('.').next().unwrap_or(""), if f.rle_native.is_some() { ":image" } else { "" })).collect::<Vec<_>>(),
                &args[args.len().saturating_sub(4)..],
                policy_mode,
                adv_max,
                shuffle_results,
                bad_status
            )
        })
    });

    simnet::begin(env, w.below(1 << 30) as u64);
    let conn = simnet::connection(Some(104));
    let rec = shared(Recorded::default());
    let tool_res: Shared<Option<Result<(), String>>> = shared(None);

    // ---- recording acceptor
    {
        let fd = simnet::fd_of(conn.a);
        let rec = rec.clone();
        simnet::spawn_node("acceptor", false, move || {
            let mut out = Recorded::default();
            let mut buf = Vec::new();
            let mut pol = Tape::generate(policy_seed);
            let finish = |out: Recorded| {
                *rec.lock().unwrap() = out;
                raw_close(fd);
            };
            let rq = match raw_recv_pdu(fd, &mut buf) {
                Some((1, b)) => match rp::parse_body(1, &b) {
                    Ok(RPdu::AssocRq(a)) => a,
                    _ => {
                        out.note = "A-ASSOCIATE-RQ does not parse".into();
                        return finish(out);
                    }
                },
                _ => {
                    out.note = "no A-ASSOCIATE-RQ".into();
                    return finish(out);
                }
            };
            for it in &rq.items {
                if let RItem::PcProposed { id, subs } = it {
                    let abs = subs.iter().find(|s| s.ty == 0x30).map(|s| String::from_utf8_lossy(ds::trim_uid(&s.data)).to_string()).unwrap_or_default();
                    let tss = subs.iter().filter(|s| s.ty == 0x40).map(|s| String::from_utf8_lossy(ds::trim_uid(&s.data)).to_string()).collect();
                    out.proposed.push((*id, abs, tss));
                }
            }
            // class-level decisions, in a fixed order of classes
            let mut class_dec: Vec<(String, u32)> = Vec::new();
            for c in CLASSES {
                class_dec.push((c.to_string(), pol.weighted(&[2, 2, 1]) as u32));
            }
            let mut results: Vec<RItem> = Vec::new();
            // decisions are drawn per context in ascending id order so that they do not depend on the order of the request
            let mut sorted = out.proposed.clone();
            sorted.sort();
            let mut decisions: Vec<(u8, bool)> = Vec::new();
            for (id, abs, tss) in &sorted {
                let coin = pol.chance(3, 5);
                let accept = match policy_mode {
                    0 => true,
                    1 => match class_dec.iter().find(|c| c.0 == *abs).map(|c| c.1) {
                        Some(0) => true,
                        Some(1) => false,
                        _ => coin,
                    },
                    2 => coin,
                    _ => tss.first().map(|t| t == TS_IMPL).unwrap_or(false),
                };
                decisions.push((*id, accept));
            }
            for (id, abs, tss) in &out.proposed {
                let accept = decisions.iter().find(|d| d.0 == *id).map(|d| d.1).unwrap_or(false) && !tss.is_empty();
                if accept {
                    out.accepted.push((*id, tss[0].clone()));
                    results.push(RItem::PcResult { id: *id, reason: 0, subs: vec![RSub { ty: 0x40, data: tss[0].as_bytes().to_vec() }] });
                } else {
                    let _ = abs;
                    results.push(RItem::PcResult { id: *id, reason: if id % 4 == 1 { 3 } else { 4 }, subs: vec![RSub { ty: 0x40, data: TS_IMPL.as_bytes().to_vec() }] });
                }
            }
            for c in CLASSES {
                let any_prop = out.proposed.iter().any(|p| p.1 == *c);
                let any_acc = out.proposed.iter().any(|p| p.1 == *c && out.accepted.iter().any(|a| a.0 == p.0));
                if any_prop && !any_acc {
                    out.rejected_classes.push(c.to_string());
                }
            }
            if shuffle_results {
                results.reverse();
            }
            let ac = rp::encode(&RPdu::AssocAc(RAssoc {
                version: 1,
                called: rq.called.clone(),
                calling: rq.calling.clone(),
                items: std::iter::once(RItem::AppCtx(b"1.2.840.10008.3.1.1.1".to_vec())).chain(results).chain(std::iter::once(RItem::UserInfo(vec![rp::sub_max_length(adv_max), rp::sub_impl_class_uid(b"1.2.3.998")]))).collect(),
            }))
            .unwrap();
            if !raw_send_all(fd, &ac) {
                out.note = "send of A-ASSOCIATE-AC failed".into();
                return finish(out);
            }
            let mut re = dimse::Reassembler::default();
            let mut taken = 0usize;
            let mut pending_cmd: Option<(u8, Vec<u8>)> = None;
            loop {
                match raw_recv_pdu(fd, &mut buf) {
                    Some((4, b)) => match rp::parse_body(4, &b) {
                        Ok(RPdu::PData(pdvs)) => {
                            re.feed(&pdvs);
                            while taken < re.done.len() {
                                let (ctx, is_cmd, bytes) = re.done[taken].clone();
                                taken += 1;
                                if is_cmd {
                                    if pending_cmd.is_some() {
                                        out.errors.push("a second command arrived before the first one's data set".into());
                                    }
                                    pending_cmd = Some((ctx, bytes));
                                } else {
                                    match pending_cmd.take() {
                                        Some((cctx, cbytes)) => {
                                            if cctx != ctx {
                                                out.errors.push(format!("command on context {} but its data set on context {}", cctx, ctx));
                                            }
                                            // answer
                                            let (class, inst, mid) = match Command::parse(&cbytes) {
                                                Ok(c) => (c.uid((0, 2)).unwrap_or_default(), c.uid((0, 0x1000)).unwrap_or_default(), c.u16((0, 0x0110)).unwrap_or(0)),
                                                Err(_) => (Vec::new(), Vec::new(), 0),
                                            };
                                            out.messages.push((cctx, cbytes, bytes));
                                            let status = match bad_status {
                                                Some(s) if out.messages.len() == 1 => s,
                                                _ => 0,
                                            };
                                            out.statuses.push(status);
                                            let rsp = dimse::c_store_rsp(&class, &inst, mid, status);
                                            let mut ft = Tape::generate(policy_seed ^ out.messages.len() as u64);
                                            let frags = [Frag { ctx: cctx, command: true, last: true, data: rsp }];
                                            for p in dimse::pack(&mut ft, &frags, 1 << 20) {
                                                if !raw_send_all(fd, &p) {
                                                    out.note = "send of a response failed".into();
                                                    return finish(out);
                                                }
                                            }
                                        }
                                        None => out.errors.push("a data set arrived without a command".into()),
                                    }
                                }
                            }
                        }
                        _ => {
                            out.errors.push("a P-DATA PDU does not parse".into());
                        }
                    },
                    Some((5, _)) => {
                        out.released = true;
                        raw_send_all(fd, &rp::encode(&RPdu::ReleaseRp).unwrap());
                        break;
                    }
                    Some((7, _)) => {
                        out.aborted = true;
                        break;
                    }
                    Some((t, _)) => {
                        out.errors.push(format!("unexpected PDU type {} after establishment", t));
                    }
                    None => break,
                }
            }
            out.errors.extend(re.errors.iter().cloned());
            finish(out);
        });
    }
    // ---- the storescu node
    {
        let args = args.clone();
        let tool_res = tool_res.clone();
        simnet::spawn_node("storescu", false, move || {
            let r = tool_storescu::run_tool(&args);
            *tool_res.lock().unwrap() = Some(r);
        });
    }

    let rep = simnet::run(200_000);
    let end = simnet::end();
    if end.needs_restart {
        simnet::request_restart();
    }
    for n in &end.nodes {
        if let Some(p) = &n.panicked {
            fail!("no-panic", format!("c33:panic:{}", n.name), "node {} panicked: {}", n.name, p);
        }
        if n.name == "storescu" && matches!(n.state, simnet::NodeState::Exited(_)) {
            env.probe("tool-exit");
        }
    }
    check!(rep.finished, "terminates", "c33:stuck", "nodes did not finish: {:?} after {} steps", rep.stuck, rep.steps);
    let r = rec.lock().unwrap().clone();
    let tool = tool_res.lock().unwrap().clone();
    env.with(|e| e.obs.note_with(|| format!("tool result {:?}; acceptor: proposed {} accepted {} messages {} released {} aborted {} note {:?}", tool, r.proposed.len(), r.accepted.len(), r.messages.len(), r.released, r.aborted, r.note)));

    check!(r.errors.is_empty(), "well-formed-messages", "c33:message-framing", "the P-DATA stream is not a sequence of C-STORE messages: {:?}", r.errors);
    if !r.rejected_classes.is_empty() && !r.accepted.is_empty() {
        env.probe("class-rejected-other-accepted");
    }
    if r.statuses.iter().any(|s| *s != 0) {
        env.probe("response-failure");
    }
    let mut seen: Vec<&str> = Vec::new();
    for (ctx, cbytes, dbytes) in &r.messages {
        let cmd = match Command::parse(cbytes) {
            Ok(c) => c,
            Err(e) => fail!("well-formed-messages", "c33:command-invalid", "a command set sent by the tool is not valid: {}", e),
        };
        check!(cmd.u16((0, 0x0100)) == Some(1), "well-formed-messages", "c33:not-c-store", "command field is {:?}, not C-STORE-RQ", cmd.u16((0, 0x0100)));
        check!(cmd.u16((0, 0x0800)).map(|v| v != 0x0101).unwrap_or(false), "well-formed-messages", "c33:no-dataset-flag", "the command says that no data set follows");
        let inst = cmd.uid((0, 0x1000)).unwrap_or_default();
        let f = match files.iter().find(|f| f.instance.as_bytes() == &inst[..]) {
            Some(f) => f,
            None => fail!("right-file", "c33:unknown-instance", "a C-STORE names instance {:?}, which is none of the files", String::from_utf8_lossy(&inst)),
        };
        check!(!seen.contains(&f.instance.as_str()), "right-file", "c33:sent-twice", "instance {} was sent twice", f.instance);
        seen.push(&f.instance);
        // the context
        let acc = r.accepted.iter().find(|a| a.0 == *ctx);
        let acc_ts = match acc {
            Some(a) => a.1.clone(),
            None => fail!("matching-context", "c33:context-not-accepted", "file {} ({}) was sent on context {}, which the acceptor did not accept (accepted: {:?})", f.instance, f.class, ctx, r.accepted),
        };
        let abs = r.proposed.iter().find(|p| p.0 == *ctx).map(|p| p.1.clone()).unwrap_or_default();
        check!(
            abs == f.class,
            "matching-context",
            "c33:wrong-abstract-syntax",
            "file {} of SOP class {} ({}) was sent on context {} whose abstract syntax is {} (accepted contexts: {:?}; classes with no accepted context: {:?})",
            f.instance,
            f.class,
            f.ts,
            ctx,
            abs,
            r.accepted.iter().map(|a| (a.0, r.proposed.iter().find(|p| p.0 == a.0).map(|p| p.1.clone()).unwrap_or_default(), a.1.clone())).collect::<Vec<_>>(),
            r.rejected_classes
        );
        check!(cmd.uid((0, 2)).as_deref() == Some(f.class.as_bytes()), "matching-context", "c33:command-sop-class", "the command names SOP class {:?}, the file has {}", cmd.uid((0, 2)).map(|b| String::from_utf8_lossy(&b).to_string()), f.class);
        // the bytes
        let (syn, deflated) = match syntax_of(&acc_ts) {
            Some(x) => x,
            None => fail!("matching-context", "c33:unknown-ts", "accepted transfer syntax {} is not one the tool proposed", acc_ts),
        };
        let data = if deflated {
            match inflate(dbytes) {
                Ok(b) => b,
                Err(e) => fail!("data-decodes", "c33:deflate-invalid", "data set sent on a deflated context does not inflate: {}", e),
            }
        } else {
            dbytes.clone()
        };
        let same_ts = acc_ts == f.ts;
        let mut model = f.model.clone();
        if !same_ts {
            let encapsulated_target = acc_ts == TS_RLE || acc_ts == TS_JPEG;
            if let Some(px) = &f.rle_native {
                check!(!encapsulated_target, "data-decodes", "c33:transcode-target", "file in {} sent on a context with {}", f.ts, acc_ts);
                model.retain(|e| e.tag != (0x7FE0, 0x0010));
                model.push(Elem { tag: (0x7FE0, 0x0010), vr: *b"OB", val: Val::Prim(Prim::Bytes(px.clone())) });
                env.probe("sent-transcoded-rle-image");
            } else if f.ts == TS_RLE || f.ts == TS_JPEG {
                fail!("data-decodes", "c33:opaque-transcoded", "file {} with undecodable {} pixel data was sent on a context with {}", f.instance, f.ts, acc_ts);
            }
            env.probe("sent-transcoded");
        } else {
            env.probe("sent-own-ts");
        }
        let lk = Lookups::of(&model);
        let (canon, _) = ds::encode(&model, syn, None).map_err(harness)?;
        let want = lk.parse(&canon, syn).map_err(|e| harness(format!("canonical data set does not parse: {}", e)))?;
        let got = match lk.parse(&data, syn) {
            Ok(p) => p,
            Err(e) => fail!("data-decodes", "c33:data-invalid", "data set of {} sent on context {} is not valid in {}: {} [{}]", f.instance, ctx, acc_ts, e, describe(&model)),
        };
        let equal = if same_ts { got == want } else { strip(&got) == strip(&want) };
        check!(
            equal,
            "data-decodes",
            if same_ts { "c33:data-differs" } else { "c33:transcoded-data-differs" },
            "data set of {} (file in {}) sent on context {} in {} does not decode to the file's data set: {} [{}]",
            f.instance,
            f.ts,
            ctx,
            acc_ts,
            first_diff(&strip(&got), &strip(&want)),
            describe(&model)
        );
    }
    if seen.len() < files.len() {
        env.probe("file-not-sent");
    }
    Ok(())
}
