//! C30 — release and abort follow the upper-layer protocol in every
//! interleaving, under connection faults.

use crate::framework::CheckDef;
use crate::nethelp::*;
use crate::simio::EnvRef;
use crate::simnet;
use dcmref::pdu::{self as rp, RAssoc, RItem, RPdu, RPdv, RSub};
use dicom_ul::association::{ClientAssociationOptions, ServerAssociationOptions};
use dicom_ul::pdu::{PDataValue, PDataValueType, Pdu};
use simcore::{check, fail, RunResult, Tape};

pub fn def() -> CheckDef {
    CheckDef {
        id: "C30",
        level: "exploration",
        configs: &["sync-sync", "sync-async", "async-sync", "async-async", "sync-vs-stub", "async-vs-stub", "stub-vs-sync", "stub-vs-async", "storescp-sync", "storescp-async"],
        quick_runs: 60_000,
        thorough_runs: 2_000_000,
        run,
        rule: "one run = an established association between two nodes (real requestor x real acceptor in the four sync/async \
               pairings, or one real side against a stub that may send any PDU at any time), each executing a seed-drawn action \
               script over {send data, receive, release, abort, drop}; the seeded scheduler decides node interleaving (both \
               sides may start a release at the same logical time), short sends, partial deliveries (a release reply split \
               across reads or coalesced with data), and in half of the runs connection faults: cut at any point, failing send, \
               read timeout firing. Oracles over the recorded wire history (events carry the scheduler's global sequence \
               number): release() is Ok only if the next PDU from the peer after the ones already consumed is A-RELEASE-RP, and \
               Err otherwise (abort, data, release request, unknown PDU, closed connection); after release/abort returned the \
               side's descriptor is closed; send() Ok means the P-DATA PDU is completely on the wire, in order; receive() Ok returns the peer's next PDU in order (both judged up to the first failed operation); a side sends nothing after its A-ABORT or A-RELEASE-RP, no P-DATA after its \
               A-RELEASE-RQ, and an A-RELEASE-RP only after it received an A-RELEASE-RQ; abort() puts an A-ABORT on the wire \
               unless the connection already failed. storescp-* configurations: the tool's real per-connection loops against a scripted \
               requestor (complete and abandoned C-STORE messages, C-ECHO, answers awaited or not, then release / abort / close): \
               once the tool has been handed an A-RELEASE-RQ its last PDU is A-RELEASE-RP and it closes; after a peer abort it \
               starts nothing and closes. Liveness: every node returns within the step budget once the peer has \
               answered or the connection is closed. distinct = distinct hashed scheduler event sequences; non-trivial = a \
               non-default scheduling, segmentation or fault decision fired",
        real: &["storescp run_store_sync / run_store_async (whole per-connection loop: C-STORE, C-ECHO, ReleaseRQ and AbortRQ arms)", "ClientAssociation, ServerAssociation, AsyncClientAssociation, AsyncServerAssociation: send, receive, release, abort, Drop", "establish / establish_async on both sides", "std and tokio TcpStream, mio, tokio current-thread runtime"],
        stub: &["TCP/IP (simulated queues; cut, failing send, timeout as scheduler events)", "stub peer (independent PS3.8 encoder)", "application scripts", "PS3.8 send-sequence acceptor (oracle)"],
        assumptions: &["in the library pairings the acceptor application is a scripted loop over the library API; the storescp-* configurations run the tool's own loops against a scripted requestor", "loss/duplication/reordering of bytes is not injected (TCP does not do that); connection-level faults are"],
        required_probes: &["release-ok", "send-ok-on-wire", "receive-ok-in-order", "served-release", "release-collision", "release-got-abort", "release-got-data", "release-on-closed", "abort-sent", "reply-split-across-reads", "fault-during-release", "storescp-release-answered", "storescp-release-mid-dataset", "storescp-aborted-by-peer", "storescp-peer-continues-after-release"],
        net: true,
    }
}

const CTX_AS: &str = "1.2.840.10008.5.1.4.1.1.7";
const IVLE: &str = "1.2.840.10008.1.2";

#[derive(Clone, Debug, PartialEq)]
enum Op {
    Send(u32),
    Recv,
    Release,
    Abort,
    Drop,
    /// application loop: receive until release (answer it), abort or error
    Serve,
    /// a message of n bytes through send_pdata (write_all + finish); sync sides only
    Stream(u32),
    /// one message through receive_pdata (read_to_end); sync sides only
    RecvStream,
}

fn gen_script(w: &mut Tape) -> Vec<Op> {
    let n = w.below(4);
    let mut v = Vec::new();
    for _ in 0..n {
        v.push(match w.weighted(&[3, 3]) {
            0 => Op::Send(w.below(3000)),
            _ => Op::Recv,
        });
    }
    v.push(match w.weighted(&[5, 2, 1, 1, 5]) {
        0 => Op::Release,
        1 => Op::Abort,
        2 => Op::Drop,
        3 => Op::Recv,
        _ => Op::Serve,
    });
    v
}

#[derive(Clone, Debug, Default)]
struct OpLog {
    op: String,
    ok: bool,
    detail: String,
    /// PDUs this side had consumed through receive() before the op
    consumed_before: usize,
    seq_start: u64,
    seq_end: u64,
}

#[derive(Default, Clone, Debug)]
struct Side {
    established: bool,
    err: String,
    log: Vec<OpLog>,
    consumed: usize,
}

fn data_pdu(n: u32) -> Pdu {
    Pdu::PData {
        data: vec![PDataValue {
            presentation_context_id: 1,
            value_type: PDataValueType::Data,
            is_last: true,
            data: vec![0x42; n as usize],
        }],
    }
}

fn kind_of(p: &Pdu) -> &'static str {
    match p {
        Pdu::PData { .. } => "P-DATA",
        Pdu::ReleaseRQ => "RELEASE-RQ",
        Pdu::ReleaseRP => "RELEASE-RP",
        Pdu::AbortRQ { .. } => "ABORT",
        Pdu::AssociationRQ(_) => "ASSOC-RQ",
        Pdu::AssociationAC(_) => "ASSOC-AC",
        Pdu::AssociationRJ(_) => "ASSOC-RJ",
        Pdu::Unknown { .. } => "UNKNOWN",
    }
}

fn ref_kind(p: &RPdu) -> &'static str {
    match p {
        RPdu::PData(_) => "P-DATA",
        RPdu::ReleaseRq => "RELEASE-RQ",
        RPdu::ReleaseRp => "RELEASE-RP",
        RPdu::Abort { .. } => "ABORT",
        RPdu::AssocRq(_) => "ASSOC-RQ",
        RPdu::AssocAc(_) => "ASSOC-AC",
        RPdu::AssocRj { .. } => "ASSOC-RJ",
        RPdu::Unknown { .. } => "UNKNOWN",
    }
}

fn now() -> u64 {
    simnet::with_net(|n| n.seq)
}

macro_rules! play_sync {
    ($assoc:expr, $script:expr, $res:expr) => {{
        let mut assoc = Some($assoc);
        for op in $script.iter() {
            let consumed_before = $res.lock().unwrap().consumed;
            let s0 = now();
            let (ok, detail, done) = match op {
                Op::Send(n) => {
                    let r = assoc.as_mut().unwrap().send(&data_pdu(*n));
                    (r.is_ok(), r.err().map(|e| e.to_string()).unwrap_or_default(), false)
                }
                Op::Recv => match assoc.as_mut().unwrap().receive() {
                    Ok(p) => {
                        $res.lock().unwrap().consumed += 1;
                        (true, kind_of(&p).to_string(), false)
                    }
                    Err(e) => (false, e.to_string(), false),
                },
                Op::Stream(n) => {
                    use std::io::Write;
                    let mut wr = assoc.as_mut().unwrap().send_pdata(1);
                    let r = wr.write_all(&vec![0x42u8; *n as usize]).and_then(|_| wr.finish());
                    (r.is_ok(), r.err().map(|e| e.to_string()).unwrap_or_default(), false)
                }
                Op::RecvStream => {
                    use std::io::Read;
                    let mut v = Vec::new();
                    let r = assoc.as_mut().unwrap().receive_pdata().read_to_end(&mut v);
                    if r.is_ok() {
                        // (the oracle adds the further PDUs of the message)
                        $res.lock().unwrap().consumed += 1;
                    }
                    (r.is_ok(), if r.is_ok() { v.len().to_string() } else { r.err().map(|e| e.to_string()).unwrap_or_default() }, false)
                }
                Op::Release => {
                    let r = assoc.take().unwrap().release();
                    (r.is_ok(), r.err().map(|e| e.to_string()).unwrap_or_default(), true)
                }
                Op::Abort => {
                    let r = assoc.take().unwrap().abort();
                    (r.is_ok(), r.err().map(|e| e.to_string()).unwrap_or_default(), true)
                }
                Op::Drop => {
                    drop(assoc.take());
                    (true, String::new(), true)
                }
                Op::Serve => {
                    let mut detail = String::new();
                    let mut ok = true;
                    loop {
                        match assoc.as_mut().unwrap().receive() {
                            Ok(Pdu::ReleaseRQ) => {
                                $res.lock().unwrap().consumed += 1;
                                let r = assoc.as_mut().unwrap().send(&Pdu::ReleaseRP);
                                ok = r.is_ok();
                                detail = format!("answered release: {:?}", r.err().map(|e| e.to_string()));
                                break;
                            }
                            Ok(Pdu::PData { .. }) => {
                                $res.lock().unwrap().consumed += 1;
                            }
                            Ok(p) => {
                                $res.lock().unwrap().consumed += 1;
                                detail = format!("stopped on {}", kind_of(&p));
                                break;
                            }
                            Err(e) => {
                                ok = false;
                                detail = e.to_string();
                                break;
                            }
                        }
                    }
                    drop(assoc.take());
                    (ok, detail, true)
                }
            };
            $res.lock().unwrap().log.push(OpLog {
                op: format!("{:?}", op),
                ok,
                detail,
                consumed_before,
                seq_start: s0,
                seq_end: now(),
            });
            if done {
                break;
            }
        }
        drop(assoc);
    }};
}

macro_rules! play_async {
    ($assoc:expr, $script:expr, $res:expr) => {{
        let mut assoc = Some($assoc);
        for op in $script.iter() {
            let consumed_before = $res.lock().unwrap().consumed;
            let s0 = now();
            let (ok, detail, done) = match op {
                Op::Send(n) => {
                    let r = assoc.as_mut().unwrap().send(&data_pdu(*n)).await;
                    (r.is_ok(), r.err().map(|e| e.to_string()).unwrap_or_default(), false)
                }
                Op::Recv => match assoc.as_mut().unwrap().receive().await {
                    Ok(p) => {
                        $res.lock().unwrap().consumed += 1;
                        (true, kind_of(&p).to_string(), false)
                    }
                    Err(e) => (false, e.to_string(), false),
                },
                // streams are scripted for synchronous sides only (AsyncPDataWriter needs a multi-thread runtime)
                Op::Stream(_) | Op::RecvStream => (true, "skipped".to_string(), false),
                Op::Release => {
                    let r = assoc.take().unwrap().release().await;
                    (r.is_ok(), r.err().map(|e| e.to_string()).unwrap_or_default(), true)
                }
                Op::Abort => {
                    let r = assoc.take().unwrap().abort().await;
                    (r.is_ok(), r.err().map(|e| e.to_string()).unwrap_or_default(), true)
                }
                Op::Drop => {
                    drop(assoc.take());
                    (true, String::new(), true)
                }
                Op::Serve => {
                    let mut detail = String::new();
                    let mut ok = true;
                    loop {
                        match assoc.as_mut().unwrap().receive().await {
                            Ok(Pdu::ReleaseRQ) => {
                                $res.lock().unwrap().consumed += 1;
                                let r = assoc.as_mut().unwrap().send(&Pdu::ReleaseRP).await;
                                ok = r.is_ok();
                                detail = format!("answered release: {:?}", r.err().map(|e| e.to_string()));
                                break;
                            }
                            Ok(Pdu::PData { .. }) => {
                                $res.lock().unwrap().consumed += 1;
                            }
                            Ok(p) => {
                                $res.lock().unwrap().consumed += 1;
                                detail = format!("stopped on {}", kind_of(&p));
                                break;
                            }
                            Err(e) => {
                                ok = false;
                                detail = e.to_string();
                                break;
                            }
                        }
                    }
                    drop(assoc.take());
                    (ok, detail, true)
                }
            };
            $res.lock().unwrap().log.push(OpLog {
                op: format!("{:?}", op),
                ok,
                detail,
                consumed_before,
                seq_start: s0,
                seq_end: now(),
            });
            if done {
                break;
            }
        }
        drop(assoc);
    }};
}

fn spawn_real_requestor(script: Vec<Op>, is_async: bool, timeout: bool, res: &Shared<Side>) {
    let res = res.clone();
    simnet::spawn_node("requestor", is_async, move || {
        let mut opts = ClientAssociationOptions::new().with_presentation_context(CTX_AS, vec![IVLE]).strict(false);
        if timeout && !is_async {
            opts = opts.read_timeout(std::time::Duration::from_secs(5));
        }
        if is_async {
            async_rt().block_on(async {
                match opts.establish_async("10.0.0.1:104").await {
                    Ok(a) => {
                        res.lock().unwrap().established = true;
                        play_async!(a, script, res);
                    }
                    Err(e) => res.lock().unwrap().err = e.to_string(),
                }
            });
        } else {
            match opts.establish("10.0.0.1:104") {
                Ok(a) => {
                    res.lock().unwrap().established = true;
                    play_sync!(a, script, res);
                }
                Err(e) => res.lock().unwrap().err = e.to_string(),
            }
        }
    });
}

fn spawn_real_acceptor(script: Vec<Op>, fd: i32, is_async: bool, timeout: bool, res: &Shared<Side>) {
    use dicom_ul::association::SyncAssociation;
    let res = res.clone();
    simnet::spawn_node("acceptor", is_async, move || {
        let mut opts = ServerAssociationOptions::new().with_abstract_syntax(CTX_AS).strict(false);
        if timeout && !is_async {
            opts = opts.read_timeout(std::time::Duration::from_secs(5));
        }
        if is_async {
            async_rt().block_on(async {
                match opts.establish_async(tokio_stream(fd)).await {
                    Ok(a) => {
                        res.lock().unwrap().established = true;
                        play_async!(a, script, res);
                    }
                    Err(e) => res.lock().unwrap().err = e.to_string(),
                }
            });
        } else {
            match opts.establish(std_stream(fd)) {
                Ok(a) => {
                    res.lock().unwrap().established = true;
                    play_sync!(a, script, res);
                }
                Err(e) => res.lock().unwrap().err = e.to_string(),
            }
        }
    });
}

fn rq_bytes() -> Vec<u8> {
    rp::encode(&RPdu::AssocRq(RAssoc {
        version: 1,
        called: b"ANY-SCP".to_vec(),
        calling: b"STUB-SCU".to_vec(),
        items: vec![
            RItem::AppCtx(b"1.2.840.10008.3.1.1.1".to_vec()),
            RItem::PcProposed {
                id: 1,
                subs: vec![RSub { ty: 0x30, data: CTX_AS.as_bytes().to_vec() }, RSub { ty: 0x40, data: IVLE.as_bytes().to_vec() }],
            },
            RItem::UserInfo(vec![rp::sub_max_length(16384), rp::sub_impl_class_uid(b"1.2.3.999")]),
        ],
    }))
    .unwrap()
}

fn ac_bytes() -> Vec<u8> {
    rp::encode(&RPdu::AssocAc(RAssoc {
        version: 1,
        called: b"ANY-SCP".to_vec(),
        calling: b"THIS-SCU".to_vec(),
        items: vec![
            RItem::AppCtx(b"1.2.840.10008.3.1.1.1".to_vec()),
            RItem::PcResult {
                id: 1,
                reason: 0,
                subs: vec![RSub { ty: 0x40, data: IVLE.as_bytes().to_vec() }],
            },
            RItem::UserInfo(vec![rp::sub_max_length(16384), rp::sub_impl_class_uid(b"1.2.3.999")]),
        ],
    }))
    .unwrap()
}

/// stub script: what the stub does after the handshake
#[derive(Clone, Debug)]
enum StubOp {
    Send(RPdu),
    RecvOne,
    /// behave: receive until release (answer it) or abort
    Serve,
    Close,
    /// receive P-DATA PDUs until one carries the last-fragment flag
    RecvMsg,
}

fn gen_stub_script(w: &mut Tape) -> Vec<StubOp> {
    let n = 1 + w.below(4);
    let mut v = Vec::new();
    for _ in 0..n {
        v.push(match w.weighted(&[3, 3, 2, 2, 1, 1, 1]) {
            0 => StubOp::RecvOne,
            1 => StubOp::Send(RPdu::PData(vec![RPdv {
                ctx: 1,
                header: 2,
                data: vec![7; w.below(600) as usize],
            }])),
            2 => StubOp::Send(RPdu::ReleaseRp),
            3 => StubOp::Send(RPdu::ReleaseRq),
            4 => StubOp::Send(RPdu::Abort { source: [0u8, 2][w.below(2) as usize], reason: w.below(7) as u8 }),
            5 => StubOp::Send(RPdu::Unknown { ty: 0x2A, data: vec![1, 2, 3] }),
            _ => StubOp::Send(RPdu::AssocRj { result: 1, source: 1, reason: 1 }),
        });
    }
    match w.below(3) {
        0 => v.push(StubOp::RecvOne),
        1 => v.push(StubOp::Serve),
        _ => {}
    }
    v.push(StubOp::Close);
    v
}

fn stub_desc(s: &[StubOp]) -> String {
    let v: Vec<String> = s
        .iter()
        .map(|o| match o {
            StubOp::Send(RPdu::PData(d)) => format!("Send(P-DATA {}B)", d[0].data.len()),
            StubOp::Send(p) => format!("Send({})", p.kind()),
            o => format!("{:?}", o),
        })
        .collect();
    format!("stub [{}]", v.join(", "))
}

fn spawn_stub(fd: i32, as_requestor: bool, script: Vec<StubOp>) {
    simnet::spawn_node(if as_requestor { "requestor-stub" } else { "acceptor-stub" }, false, move || {
        let mut buf = Vec::new();
        if as_requestor {
            if !raw_send_all(fd, &rq_bytes()) || raw_recv_pdu(fd, &mut buf).is_none() {
                raw_close(fd);
                return;
            }
        } else {
            if raw_recv_pdu(fd, &mut buf).is_none() || !raw_send_all(fd, &ac_bytes()) {
                raw_close(fd);
                return;
            }
        }
        for op in script {
            match op {
                StubOp::Send(p) => {
                    if !raw_send_all(fd, &rp::encode(&p).unwrap()) {
                        break;
                    }
                }
                StubOp::RecvOne => {
                    if raw_recv_pdu(fd, &mut buf).is_none() {
                        break;
                    }
                }
                StubOp::RecvMsg => loop {
                    match raw_recv_pdu(fd, &mut buf) {
                        Some((4, b)) => {
                            if let Ok(RPdu::PData(v)) = rp::parse_body(4, &b) {
                                if v.iter().any(|x| x.header & 2 == 2) {
                                    break;
                                }
                            }
                        }
                        _ => {
                            raw_close(fd);
                            return;
                        }
                    }
                },
                StubOp::Serve => {
                    loop {
                        match raw_recv_pdu(fd, &mut buf) {
                            Some((5, _)) => {
                                raw_send_all(fd, &rp::encode(&RPdu::ReleaseRp).unwrap());
                                break;
                            }
                            Some((4, _)) => {}
                            _ => break,
                        }
                    }
                    break;
                }
                StubOp::Close => break,
            }
        }
        raw_close(fd);
    });
}

/// PDUs after the association PDU, with the global sequence number at which each was completely sent
fn sent_after_handshake(ep: &simnet::Endpoint) -> Vec<(RPdu, u64, u64)> {
    let (frames, _) = rp::frame(&ep.sent);
    let mut out = Vec::new();
    let mut off = 0usize;
    for (i, (t, b)) in frames.iter().enumerate() {
        let start = off;
        off += 6 + b.len();
        if i == 0 {
            continue;
        }
        let seq_first = ep.send_marks.iter().find(|(_, total)| *total > start).map(|(s, _)| *s).unwrap_or(0);
        let seq_done = ep.send_marks.iter().find(|(_, total)| *total >= off).map(|(s, _)| *s).unwrap_or(u64::MAX);
        if let Ok(p) = rp::parse_body(*t, b) {
            out.push((p, seq_first, seq_done));
        }
    }
    out
}

/// PDUs received by the owner of `ep` after the association PDU, with the sequence number at which the
/// last byte of each was handed to the owner (u64::MAX if never completely received)
fn received_after_handshake(ep: &simnet::Endpoint, peer: &simnet::Endpoint) -> Vec<(RPdu, u64)> {
    let got = &peer.sent[..ep.received.min(peer.sent.len())];
    let (frames, _) = rp::frame(got);
    let mut out = Vec::new();
    let mut off = 0usize;
    for (i, (t, b)) in frames.iter().enumerate() {
        off += 6 + b.len();
        if i == 0 {
            continue;
        }
        let seq = ep.recv_marks.iter().find(|(_, total)| *total >= off).map(|(s, _)| *s).unwrap_or(u64::MAX);
        if let Ok(p) = rp::parse_body(*t, b) {
            out.push((p, seq));
        }
    }
    out
}

fn check_side(env: &EnvRef, who: &str, side: &Side, ep: &simnet::Endpoint, peer: &simnet::Endpoint, faults: bool) -> RunResult {
    if !side.established {
        return Ok(());
    }
    let sent = sent_after_handshake(ep);
    let recvd = received_after_handshake(ep, peer);
    // --- send-sequence constraints of the PS3.8 state machine
    let mut released_rq = false;
    for (i, (p, seq_first, _)) in sent.iter().enumerate() {
        if i > 0 {
            let prev = &sent[i - 1].0;
            check!(!matches!(prev, RPdu::Abort { .. }), "state-machine", format!("c30:{}:sends-after-abort", who), "{} sent {} after its A-ABORT", who, p.kind());
            check!(!matches!(prev, RPdu::ReleaseRp), "state-machine", format!("c30:{}:sends-after-release-rp", who), "{} sent {} after its A-RELEASE-RP", who, p.kind());
        }
        match p {
            RPdu::PData(_) => check!(!released_rq, "state-machine", format!("c30:{}:data-after-release-rq", who), "{} sent P-DATA after its A-RELEASE-RQ", who),
            RPdu::ReleaseRq => released_rq = true,
            RPdu::ReleaseRp => {
                let had_rq = recvd.iter().any(|(q, s)| matches!(q, RPdu::ReleaseRq) && *s <= *seq_first);
                check!(had_rq, "state-machine", format!("c30:{}:release-rp-without-rq", who), "{} sent A-RELEASE-RP without having received an A-RELEASE-RQ", who);
            }
            _ => {}
        }
    }
    // --- what an Ok means: sends are on the wire in order, receives return the peer's PDUs in order
    //     (judged up to the first failed operation: a failed send may leave a partial PDU behind)
    let mut wire_idx = 0usize;
    // a successful RecvStream consumed k PDUs where the node counted one: the k - 1 others, per log entry
    let mut extra_consumed = vec![0usize; side.log.len() + 1];
    for (li, l) in side.log.iter().enumerate() {
        extra_consumed[li + 1] = extra_consumed[li];
        if !l.ok {
            break;
        }
        if l.op.starts_with("Stream(") {
            let n: usize = l.op[7..l.op.len() - 1].parse().unwrap_or(0);
            let mut total = 0usize;
            let mut closed = false;
            while let Some((RPdu::PData(pdvs), _, done)) = sent.get(wire_idx) {
                if *done > l.seq_end {
                    break;
                }
                wire_idx += 1;
                total += pdvs.iter().map(|v| v.data.len()).sum::<usize>();
                if pdvs.iter().any(|v| v.header & 2 == 2) {
                    closed = true;
                    break;
                }
            }
            check!(
                closed && total == n,
                "ok-means-done",
                format!("c30:{}:stream-ok-not-on-wire", who),
                "{}: send_pdata of {} bytes (write_all + finish) returned Ok but by then the wire holds {} payload bytes of it, message closed: {}",
                who,
                n,
                total,
                closed
            );
            env.probe("stream-ok-on-wire");
            continue;
        }
        if l.op == "RecvStream" {
            let want: usize = l.detail.parse().unwrap_or(usize::MAX);
            let mut idx = l.consumed_before + extra_consumed[li];
            let mut total = 0usize;
            let mut closed = false;
            let mut k = 0usize;
            while let Some((RPdu::PData(pdvs), s)) = recvd.get(idx) {
                if *s > l.seq_end {
                    break;
                }
                idx += 1;
                k += 1;
                total += pdvs.iter().map(|v| v.data.len()).sum::<usize>();
                if pdvs.iter().any(|v| v.header & 2 == 2) {
                    closed = true;
                    break;
                }
            }
            check!(
                closed && total == want,
                "ok-means-done",
                format!("c30:{}:receive-pdata-ok-wrong", who),
                "{}: receive_pdata().read_to_end returned Ok with {} bytes, but the peer's message as delivered by then has {} bytes, complete: {}",
                who,
                want,
                total,
                closed
            );
            extra_consumed[li + 1] += k.saturating_sub(1);
            env.probe("receive-pdata-ok-complete");
            continue;
        }
        if l.op.starts_with("Send(") {
            let n: usize = l.op[5..l.op.len() - 1].parse().unwrap_or(0);
            match sent.get(wire_idx) {
                Some((RPdu::PData(pdvs), _, done)) if pdvs.iter().map(|v| v.data.len()).sum::<usize>() == n && *done <= l.seq_end => {}
                other => fail!(
                    "ok-means-done",
                    format!("c30:{}:send-ok-not-on-wire", who),
                    "{}: send() of a {}-byte P-DATA returned Ok but PDU #{} this side put on the wire is {:?}",
                    who,
                    n,
                    wire_idx + 1,
                    other.map(|x| (x.0.kind(), x.2))
                ),
            }
            wire_idx += 1;
            env.probe("send-ok-on-wire");
        } else if l.op == "Recv" {
            match recvd.get(l.consumed_before + extra_consumed[li]) {
                Some((p, s)) if ref_kind(p) == l.detail && *s <= l.seq_end => {}
                other => fail!(
                    "ok-means-done",
                    format!("c30:{}:receive-ok-wrong-pdu", who),
                    "{}: receive() returned Ok({}) as PDU #{} from the peer, but the peer's PDU #{} (as delivered so far) is {:?}",
                    who,
                    l.detail,
                    l.consumed_before + 1,
                    l.consumed_before + 1,
                    other.map(|x| (x.0.kind(), x.1))
                ),
            }
            env.probe("receive-ok-in-order");
        } else {
            break;
        }
    }
    // --- the API outcomes
    for (li, l) in side.log.iter().enumerate() {
        if l.op == "Release" {
            // what was the next PDU from the peer, after those this side had consumed, by the time release returned?
            let next = recvd.get(l.consumed_before + extra_consumed[li.min(extra_consumed.len() - 1)]).filter(|(_, s)| *s <= l.seq_end);
            let next_kind = next.map(|(p, _)| p.kind()).unwrap_or("nothing (connection closed or failed)");
            match next {
                Some((RPdu::ReleaseRp, _)) => {
                    // the reply arrived; only a fault can make release fail now
                    if !l.ok {
                        check!(faults, "release-outcome", format!("c30:{}:release-failed-despite-reply", who), "{}: release() failed ({}) although the peer's next PDU was A-RELEASE-RP and no fault was injected", who, l.detail);
                    } else {
                        env.probe("release-ok");
                        let rp_bytes_start: usize = 0;
                        let _ = rp_bytes_start;
                        // reply split across reads?
                        let n_marks = ep.recv_marks.iter().filter(|(s, _)| *s > l.seq_start && *s <= l.seq_end).count();
                        if n_marks > 1 {
                            env.probe("reply-split-across-reads");
                        }
                    }
                }
                other => {
                    match other.map(|x| &x.0) {
                        Some(RPdu::ReleaseRq) => env.probe("release-collision"),
                        Some(RPdu::Abort { .. }) => env.probe("release-got-abort"),
                        Some(RPdu::PData(_)) => env.probe("release-got-data"),
                        None => env.probe("release-on-closed"),
                        _ => {}
                    }
                    check!(
                        !l.ok,
                        "release-outcome",
                        format!("c30:{}:release-ok-without-reply", who),
                        "{}: release() returned Ok although the next PDU from the peer was {} (it had consumed {} PDUs before)",
                        who,
                        next_kind,
                        l.consumed_before
                    );
                }
            }
            if faults && !l.ok {
                env.probe("fault-during-release");
            }
            // the request itself must be on the wire (unless the connection had already failed)
            let rq_sent = sent.iter().any(|(p, s, _)| matches!(p, RPdu::ReleaseRq) && *s >= l.seq_start);
            check!(rq_sent || !l.ok, "release-outcome", format!("c30:{}:release-ok-without-request", who), "{}: release() returned Ok without an A-RELEASE-RQ on the wire", who);
        }
        if l.op == "Abort" {
            let abort_sent = matches!(sent.last(), Some((RPdu::Abort { .. }, _, _)));
            if l.ok {
                env.probe("abort-sent");
                check!(abort_sent, "abort-outcome", format!("c30:{}:abort-ok-without-pdu", who), "{}: abort() returned Ok but the last PDU it sent is {:?}", who, sent.last().map(|x| x.0.kind()));
            }
        }
        if l.op == "Serve" && l.detail.starts_with("answered release") && l.ok {
            env.probe("served-release");
            check!(matches!(sent.last(), Some((RPdu::ReleaseRp, _, _))), "state-machine", format!("c30:{}:serve-no-rp", who), "{}: answered a release but its last PDU is {:?}", who, sent.last().map(|x| x.0.kind()));
        }
        if l.op == "Release" || l.op == "Abort" || l.op == "Drop" || l.op == "Serve" {
            check!(ep.closed, "closes", format!("c30:{}:not-closed-after-{}", who, l.op.to_lowercase()), "{}: the descriptor is still open after {} returned and the association is gone", who, l.op);
        }
    }
    Ok(())
}

// ------------------------------------------------------------------ the storescp loops as acceptors
//
// The real per-connection bodies of the tool (run_store_sync / run_store_async) against a scripted
// requestor that sends complete and abandoned C-STORE messages and C-ECHOs and ends the session
// with a release request, an abort or a plain close at an arbitrary PDU boundary.

#[derive(Clone, Debug)]
enum ScuOp {
    /// pre-encoded P-DATA PDUs of one message (all of them, or a proper prefix when `abandoned`); wait for the answer?
    Message { pdus: Vec<Vec<u8>>, abandoned: bool, wait: bool, what: &'static str },
    Release,
    Abort,
    Close,
    /// release, read the reply, then keep the connection and send more (a C-ECHO, or a second release request)
    ReleaseThenMore(Vec<u8>),
}

fn gen_scu_script(w: &mut Tape, max_pdu: usize) -> Vec<ScuOp> {
    use crate::dimse::{self, Frag};
    let mut v = Vec::new();
    let n = w.below(4);
    for k in 0..n {
        if w.chance(1, 4) {
            let pdus = dimse::pack(w, &[Frag { ctx: 1, command: true, last: true, data: dimse::c_echo_rq(500 + k as u16) }], max_pdu);
            v.push(ScuOp::Message { pdus, abandoned: false, wait: w.chance(3, 4), what: "C-ECHO" });
            continue;
        }
        let inst = format!("1.2.826.0.1.3680043.9.77.{}", k);
        let mut model = dcmref::ds::gen_dataset(w, &dcmref::ds::GenCfg { max_depth: 2, pixel: false, encapsulated: false, ..Default::default() });
        for (tag, val) in [((0x0008u16, 0x0016u16), CTX_AS.as_bytes()), ((0x0008, 0x0018), inst.as_bytes())] {
            model.retain(|e| e.tag != tag);
            let pos = model.iter().position(|e| e.tag > tag).unwrap_or(model.len());
            model.insert(pos, dcmref::ds::Elem { tag, vr: *b"UI", val: dcmref::ds::Val::Prim(dcmref::ds::Prim::Text(val.to_vec())) });
        }
        let data = dcmref::ds::encode(&model, dcmref::ds::Syntax::ImplicitLE, None).map(|x| x.0).unwrap_or_default();
        let mut frags = vec![Frag { ctx: 1, command: true, last: true, data: dimse::c_store_rq(CTX_AS.as_bytes(), inst.as_bytes(), 10 + k as u16) }];
        frags.extend(dimse::fragment(w, 1, false, &data, max_pdu - 6, false));
        let mut pdus = dimse::pack(w, &frags, max_pdu);
        // an abandoned message: the requestor stops after a proper, non-empty prefix of its PDUs and ends the session
        if pdus.len() >= 2 && w.chance(1, 3) {
            let keep = 1 + w.below(pdus.len() as u32 - 1) as usize;
            pdus.truncate(keep);
            v.push(ScuOp::Message { pdus, abandoned: true, wait: false, what: "C-STORE (abandoned)" });
            break;
        }
        v.push(ScuOp::Message { pdus, abandoned: false, wait: w.chance(3, 4), what: "C-STORE" });
    }
    v.push(match w.weighted(&[6, 2, 1, 2]) {
        0 => ScuOp::Release,
        1 => ScuOp::Abort,
        2 => ScuOp::Close,
        _ => {
            let more = if w.chance(1, 2) {
                dimse::pack(w, &[Frag { ctx: 1, command: true, last: true, data: dimse::c_echo_rq(777) }], max_pdu).concat()
            } else {
                rp::encode(&RPdu::ReleaseRq).unwrap()
            };
            ScuOp::ReleaseThenMore(more)
        }
    });
    v
}

fn run_storescp(is_async: bool, w: &mut Tape, env: &EnvRef) -> RunResult {
    use crate::framework::sandbox_dir;
    let who = if is_async { "storescp-async" } else { "storescp-sync" };
    let harness = |e: std::io::Error| simcore::Violation::new("harness", "harness", format!("harness: {}", e));
    let base = sandbox_dir();
    let _ = std::fs::remove_dir_all(&base);
    let out_dir = base.join("c30out");
    std::fs::create_dir_all(&out_dir).map_err(harness)?;
    std::env::set_current_dir(&base).map_err(harness)?;
    let max_pdu: u32 = [16378u32, 1018, 4096][w.below(3) as usize];
    let mut args: Vec<String> = vec!["storescp".into(), "-o".into(), out_dir.display().to_string(), "-m".into(), max_pdu.to_string()];
    if is_async {
        args.push("--non-blocking".into());
    }
    let faults = w.chance(1, 3);
    let script = gen_scu_script(w, max_pdu as usize);
    env.with(|e| {
        e.obs.note_with(|| {
            format!(
                "{} faults={} max_pdu={} requestor script [{}]",
                who,
                faults,
                max_pdu,
                script
                    .iter()
                    .map(|o| match o {
                        ScuOp::Message { pdus, abandoned, wait, what } => format!("{} {} PDUs{}{}", what, pdus.len(), if *abandoned { " then gives up" } else { "" }, if *wait { ", waits" } else { "" }),
                        o => format!("{:?}", o),
                    })
                    .collect::<Vec<_>>()
                    .join("; ")
            )
        })
    });
    simnet::begin(env, w.below(1 << 30) as u64);
    simnet::with_net(|n| n.faults_allowed = faults);
    let conn = simnet::connection(None);
    let tool_res: Shared<Option<Result<(), String>>> = shared(None);
    {
        let fd = simnet::fd_of(conn.a);
        let tool_res = tool_res.clone();
        simnet::spawn_node("storescp", is_async, move || {
            let r = if is_async { async_rt().block_on(async { tool_storescp::serve_async(tokio_stream(fd), &args).await }) } else { tool_storescp::serve_sync(std_stream(fd), &args) };
            *tool_res.lock().unwrap() = Some(r);
        });
    }
    // (release request sent, reply received)
    let scu: Shared<(bool, bool, bool)> = shared((false, false, false));
    {
        let fd = simnet::fd_of(conn.b);
        let scu = scu.clone();
        let script = script.clone();
        simnet::spawn_node("requestor-stub", false, move || {
            let mut buf = Vec::new();
            if !raw_send_all(fd, &rq_bytes()) || !matches!(raw_recv_pdu(fd, &mut buf), Some((2, _))) {
                raw_close(fd);
                return;
            }
            scu.lock().unwrap().2 = true;
            'ops: for op in &script {
                match op {
                    ScuOp::Message { pdus, wait, .. } => {
                        for p in pdus {
                            if !raw_send_all(fd, p) {
                                break 'ops;
                            }
                        }
                        if *wait && raw_recv_pdu(fd, &mut buf).is_none() {
                            break 'ops;
                        }
                    }
                    ScuOp::Release => {
                        if raw_send_all(fd, &rp::encode(&RPdu::ReleaseRq).unwrap()) {
                            scu.lock().unwrap().0 = true;
                            // answers to messages it did not wait for come first
                            loop {
                                match raw_recv_pdu(fd, &mut buf) {
                                    Some((6, _)) => {
                                        scu.lock().unwrap().1 = true;
                                        break;
                                    }
                                    Some((4, _)) => {}
                                    _ => break,
                                }
                            }
                        }
                    }
                    ScuOp::Abort => {
                        raw_send_all(fd, &rp::encode(&RPdu::Abort { source: 0, reason: 0 }).unwrap());
                    }
                    ScuOp::ReleaseThenMore(more) => {
                        if raw_send_all(fd, &rp::encode(&RPdu::ReleaseRq).unwrap()) {
                            scu.lock().unwrap().0 = true;
                            loop {
                                match raw_recv_pdu(fd, &mut buf) {
                                    Some((6, _)) => {
                                        scu.lock().unwrap().1 = true;
                                        // the association is released; a peer that goes on all the same
                                        if raw_send_all(fd, more) {
                                            // whatever comes back is on the wire record; wait for the close
                                            while raw_recv_pdu(fd, &mut buf).is_some() {}
                                        }
                                        break;
                                    }
                                    Some((4, _)) => {}
                                    _ => break,
                                }
                            }
                        }
                    }
                    ScuOp::Close => {}
                }
            }
            raw_close(fd);
        });
    }
    let rep = simnet::run(120_000);
    let end = simnet::end();
    if end.needs_restart {
        simnet::request_restart();
    }
    for n in &end.nodes {
        if let Some(p) = &n.panicked {
            fail!("no-panic", format!("c30:panic:{}", n.name), "node {} panicked: {}", n.name, p);
        }
    }
    check!(rep.finished, "liveness", format!("c30:{}:stuck", who), "nodes did not return within the step budget: {:?} (steps {}, quiesced {})", rep.stuck, rep.steps, rep.quiesced);
    let ep = &end.eps[conn.a];
    let peer = &end.eps[conn.b];
    let established = scu.lock().unwrap().2;
    if !established {
        return Ok(());
    }
    // the send-sequence constraints of the state machine on what the tool put on the wire
    let side = Side { established: true, ..Default::default() };
    check_side(env, who, &side, ep, peer, faults)?;
    let sent = sent_after_handshake(ep);
    let recvd = received_after_handshake(ep, peer);
    let abandoned = script.iter().any(|o| matches!(o, ScuOp::Message { abandoned: true, .. }));
    // an acceptor answers a release request with a release reply: once the tool has been handed a complete
    // A-RELEASE-RQ while it was still in the association, its next and last PDU is A-RELEASE-RP
    if script.iter().any(|o| matches!(o, ScuOp::ReleaseThenMore(_))) && scu.lock().unwrap().1 {
        env.probe("storescp-peer-continues-after-release");
    }
    if let Some((_, rq_seq)) = recvd.iter().find(|(p, s)| matches!(p, RPdu::ReleaseRq) && *s != u64::MAX) {
        let gone_before = sent.iter().any(|(p, s, _)| matches!(p, RPdu::Abort { .. }) && *s <= *rq_seq);
        if !gone_before && !faults {
            env.probe("storescp-release-answered");
            if abandoned {
                env.probe("storescp-release-mid-dataset");
            }
            check!(
                matches!(sent.last(), Some((RPdu::ReleaseRp, _, _))),
                "release-answered",
                format!("c30:{}:release-not-answered", who),
                "{} was handed an A-RELEASE-RQ{} but the last PDU it sent is {:?}",
                who,
                if abandoned { " in the middle of a data set (after a non-final fragment)" } else { "" },
                sent.last().map(|x| x.0.kind())
            );
            check!(ep.closed, "closes", format!("c30:{}:open-after-release", who), "{} answered the release but its descriptor is still open after it returned", who);
        }
    }
    if let Some((_, ab_seq)) = recvd.iter().find(|(p, s)| matches!(p, RPdu::Abort { .. }) && *s != u64::MAX) {
        env.probe("storescp-aborted-by-peer");
        if abandoned {
            env.probe("storescp-abort-mid-dataset");
        }
        // the tool may still answer the messages it was handed before the abort (its reads run ahead of its
        // processing), one PDU per complete message, and nothing else
        let _ = ab_seq;
        let complete = script.iter().filter(|o| matches!(o, ScuOp::Message { abandoned: false, .. })).count();
        check!(
            sent.len() <= complete && sent.iter().all(|(p, _, _)| matches!(p, RPdu::PData(_))),
            "state-machine",
            format!("c30:{}:sends-after-peer-abort", who),
            "{} sent {:?} although the peer sent only {} complete messages and then aborted",
            who,
            sent.iter().map(|x| x.0.kind()).collect::<Vec<_>>(),
            complete
        );
        check!(ep.closed, "closes", format!("c30:{}:open-after-abort", who), "{} did not close the connection after the peer's A-ABORT", who);
    }
    check!(ep.closed, "closes", format!("c30:{}:open-after-return", who), "{} returned but its descriptor is still open", who);
    let _ = tool_res;
    Ok(())
}

fn run(cfgi: usize, w: &mut Tape, env: &EnvRef) -> RunResult {
    if cfgi >= 8 {
        return run_storescp(cfgi == 9, w, env);
    }
    let faults = w.chance(1, 2);
    let timeout = w.chance(1, 3);
    simnet::begin(env, w.below(1 << 30) as u64);
    simnet::with_net(|n| n.faults_allowed = faults);
    let conn = simnet::connection(if cfgi < 6 { Some(104) } else { None });
    let rres = shared(Side::default());
    let ares = shared(Side::default());
    let (req_real, acc_real, req_async, acc_async) = match cfgi {
        0 => (true, true, false, false),
        1 => (true, true, false, true),
        2 => (true, true, true, false),
        3 => (true, true, true, true),
        4 => (true, false, false, false),
        5 => (true, false, true, false),
        6 => (false, true, false, false),
        _ => (false, true, false, true),
    };
    let rs = gen_script(w);
    let as_ = gen_script(w);
    let stub_script = gen_stub_script(w);
    env.with(|e| e.obs.note_with(|| format!("faults={} timeout={} requestor {}; acceptor {}", faults, timeout, if req_real { format!("real {:?}", rs) } else { stub_desc(&stub_script) }, if acc_real { format!("real {:?}", as_) } else { stub_desc(&stub_script) })));
    if acc_real {
        spawn_real_acceptor(as_.clone(), simnet::fd_of(conn.a), acc_async, timeout, &ares);
        simnet::with_net(|n| n.eps[conn.a].rcv_timeout_set = timeout && !acc_async);
    } else {
        spawn_stub(simnet::fd_of(conn.a), false, stub_script.clone());
    }
    if req_real {
        spawn_real_requestor(rs.clone(), req_async, timeout, &rres);
        simnet::with_net(|n| n.eps[conn.b].rcv_timeout_set = timeout && !req_async);
    } else {
        // the stub requestor owns the pre-made descriptor directly
        spawn_stub(simnet::fd_of(conn.b), true, stub_script.clone());
    }
    let rep = simnet::run(60_000);
    let end = simnet::end();
    if end.needs_restart {
        simnet::request_restart();
    }
    for n in &end.nodes {
        if let Some(p) = &n.panicked {
            fail!("no-panic", format!("c30:panic:{}", n.name), "node {} panicked: {}", n.name, p);
        }
    }
    check!(rep.finished, "liveness", "c30:stuck", "nodes did not return within the step budget: {:?} (steps {}, quiesced {})", rep.stuck, rep.steps, rep.quiesced);
    let r = rres.lock().unwrap().clone();
    let a = ares.lock().unwrap().clone();
    if req_real {
        check_side(env, "requestor", &r, &end.eps[conn.b], &end.eps[conn.a], faults)?;
    }
    if acc_real {
        check_side(env, "acceptor", &a, &end.eps[conn.a], &end.eps[conn.b], faults)?;
    }
    Ok(())
}

// ------------------------------------------------------------------ C34, association level
//
// The same sessions with the connection lost at an enumerated byte offset of what the real side
// sends or receives: every association operation must return Err, or Ok with its effect complete.

struct Session {
    side: Side,
    sent: usize,
    received: usize,
    finished: bool,
    stuck: Vec<String>,
    panicked: Option<String>,
    end: simnet::EndState,
    real_ep: usize,
    peer_ep: usize,
}

fn one_session(env: &EnvRef, seed: u64, real_is_requestor: bool, is_async: bool, script: &[Op], stub: &[StubOp], cut_sent: Option<usize>, cut_received: Option<usize>) -> Session {
    simnet::begin(env, seed);
    let conn = simnet::connection(if real_is_requestor { Some(104) } else { None });
    let res = shared(Side::default());
    let (real_ep, peer_ep) = if real_is_requestor { (conn.b, conn.a) } else { (conn.a, conn.b) };
    simnet::with_net(|n| {
        n.eps[real_ep].cut_after_sent = cut_sent;
        n.eps[real_ep].cut_after_received = cut_received;
    });
    if real_is_requestor {
        spawn_stub(simnet::fd_of(conn.a), false, stub.to_vec());
        spawn_real_requestor(script.to_vec(), is_async, false, &res);
    } else {
        spawn_real_acceptor(script.to_vec(), simnet::fd_of(conn.a), is_async, false, &res);
        spawn_stub(simnet::fd_of(conn.b), true, stub.to_vec());
    }
    let rep = simnet::run(60_000);
    let end = simnet::end();
    if end.needs_restart {
        simnet::request_restart();
    }
    let panicked = end.nodes.iter().find_map(|n| n.panicked.as_ref().map(|p| format!("{}: {}", n.name, p)));
    let side = res.lock().unwrap().clone();
    Session { side, sent: end.eps[real_ep].sent.len(), received: end.eps[real_ep].received, finished: rep.finished, stuck: rep.stuck, panicked, end, real_ep, peer_ep }
}

pub fn run_assoc_faults(cfgi: usize, w: &mut Tape, env: &EnvRef) -> RunResult {
    let real_is_requestor = cfgi % 2 == 0;
    let is_async = cfgi / 2 % 2 == 1;
    let who = match (real_is_requestor, is_async) {
        (true, false) => "requestor-sync",
        (true, true) => "requestor-async",
        (false, false) => "acceptor-sync",
        (false, true) => "acceptor-async",
    };
    // a small conversation: the stub answers every data PDU with one of its own and serves the release
    let n1 = w.below(200);
    let n2 = w.below(40);
    let variant = if is_async { w.below(4) } else { w.below(6) };
    let msg = |n: u32, parts: u32| -> Vec<StubOp> {
        // one message of n bytes in `parts` P-DATA PDUs, the last flagged
        let parts = parts.max(1);
        (0..parts).map(|i| StubOp::Send(RPdu::PData(vec![RPdv { ctx: 1, header: if i + 1 == parts { 2 } else { 0 }, data: vec![9; (n / parts) as usize] }]))).collect()
    };
    let (script, stub): (Vec<Op>, Vec<StubOp>) = match variant {
        4 => {
            let mut st = vec![StubOp::RecvMsg];
            st.extend(msg(n2 * 3, 1 + n2 % 3));
            st.extend([StubOp::Serve, StubOp::Close]);
            (vec![Op::Stream(n1 * 40), Op::RecvStream, Op::Release], st)
        }
        5 => {
            let mut st = msg(n1 * 4, 1 + n1 % 4);
            st.extend([StubOp::RecvMsg, StubOp::RecvOne, StubOp::Close]);
            (vec![Op::RecvStream, Op::Stream(n2), Op::Abort], st)
        }
        0 => (vec![Op::Send(n1), Op::Recv, Op::Release], vec![StubOp::RecvOne, StubOp::Send(RPdu::PData(vec![RPdv { ctx: 1, header: 2, data: vec![9; n2 as usize] }])), StubOp::Serve, StubOp::Close]),
        1 => (vec![Op::Recv, Op::Send(n1), Op::Abort], vec![StubOp::Send(RPdu::PData(vec![RPdv { ctx: 1, header: 2, data: vec![9; n2 as usize] }])), StubOp::RecvOne, StubOp::RecvOne, StubOp::Close]),
        2 => (vec![Op::Send(n1), Op::Send(n2), Op::Serve], vec![StubOp::RecvOne, StubOp::RecvOne, StubOp::Send(RPdu::ReleaseRq), StubOp::RecvOne, StubOp::Close]),
        _ => (vec![Op::Release], vec![StubOp::Serve, StubOp::Close]),
    };
    let seed = w.below(1 << 30) as u64;
    let base = one_session(env, seed, real_is_requestor, is_async, &script, &stub, None, None);
    if let Some(p) = &base.panicked {
        fail!("no-panic", format!("c34:assoc:{}:panic", who), "node panicked without any fault: {}", p);
    }
    check!(base.finished, "terminates", format!("c34:assoc:{}:stuck", who), "fault-free session does not finish: {:?}", base.stuck);
    check!(base.side.established && base.side.log.iter().all(|l| l.ok), "fault-free", format!("c34:assoc:{}:fault-free-fails", who), "the fault-free session fails: established={} err={:?} log={:?}", base.side.established, base.side.err, base.side.log);
    let (s_total, r_total) = (base.sent, base.received);
    // a window of consecutive offsets in one direction; all offsets are covered across runs
    let dir_sent = w.chance(1, 2);
    let total = if dir_sent { s_total } else { r_total };
    // half of the windows start after the association PDU (most bytes of a short session belong to it)
    let handshake = {
        let ep = &base.end.eps[base.real_ep];
        let peer = &base.end.eps[base.peer_ep];
        let bytes = if dir_sent { &ep.sent } else { &peer.sent };
        rp::frame(bytes).0.first().map(|f| 6 + f.1.len()).unwrap_or(0).min(total)
    };
    let k0 = if w.chance(1, 2) { w.below(total as u32 + 1) as usize } else { handshake + w.below((total - handshake) as u32 + 1) as usize };
    const WINDOW: usize = 8;
    env.with(|e| e.obs.note_with(|| format!("{} script {:?} stub {}; fault-free: sent {} received {}; cutting {} offsets {}..{}", who, script, stub_desc(&stub), s_total, r_total, if dir_sent { "sent" } else { "received" }, k0, k0 + WINDOW)));
    for k in k0..(k0 + WINDOW).min(total + 1) {
        let s = one_session(env, seed, real_is_requestor, is_async, &script, &stub, if dir_sent { Some(k) } else { None }, if dir_sent { None } else { Some(k) });
        let what = format!("connection lost after {} of {} bytes {}", k, total, if dir_sent { "sent" } else { "received" });
        if let Some(p) = &s.panicked {
            fail!("no-panic", format!("c34:assoc:{}:panic", who), "{}: node panicked: {}", what, p);
        }
        check!(s.finished, "terminates", format!("c34:assoc:{}:stuck", who), "{}: the session does not finish: {:?}", what, s.stuck);
        env.probe(if dir_sent { "assoc-cut-sent-offset" } else { "assoc-cut-received-offset" });
        let ep = &s.end.eps[s.real_ep];
        let peer = &s.end.eps[s.peer_ep];
        // establishment: Ok only if the whole exchange of association PDUs happened
        let (my_frames, _) = rp::frame(&ep.sent);
        let got = &peer.sent[..ep.received.min(peer.sent.len())];
        let (their_frames, _) = rp::frame(got);
        if s.side.established {
            check!(!my_frames.is_empty() && !their_frames.is_empty(), "ok-means-done", format!("c34:assoc:{}:established-without-exchange", who), "{}: establish returned Ok but the association PDUs were not completely exchanged (sent {} complete PDUs, received {})", what, my_frames.len(), their_frames.len());
            env.probe("assoc-established-under-cut");
        } else {
            env.probe("assoc-establish-failed-under-cut");
        }
        // the operations: the same Ok-means-done oracles as C30 (faults = true: failures are legitimate)
        check_side(env, who, &s.side, ep, peer, true).map_err(|mut v| {
            v.msg = format!("{}: {}", what, v.msg);
            v.class = v.class.replace("c30:", "c34:assoc:");
            v
        })?;
        // and nothing may succeed that the fault-free run does not do
        if s.side.log.iter().all(|l| l.ok) && s.side.log.len() == base.side.log.len() && s.side.established {
            env.probe("assoc-complete-despite-cut");
        } else {
            env.probe("assoc-error-reported");
        }
    }
    Ok(())
}
