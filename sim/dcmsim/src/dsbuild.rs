//! From the independent data-set model (`dcmref::ds`) to dicom-rs objects
//! through the public API, plus transfer syntax plumbing.

use dcmref::ds::{self, Elem, Prim, Syntax, Val};
use dicom_core::value::{DataSetSequence, DicomDate, DicomDateTime, DicomTime, PixelFragmentSequence};
use dicom_core::{DataElement, Length, PrimitiveValue, Tag, VR};
use dicom_encoding::TransferSyntax;
use dicom_object::InMemDicomObject;
use dicom_transfer_syntax_registry::entries;

pub fn ts_of(s: Syntax) -> TransferSyntax {
    match s {
        Syntax::ImplicitLE => entries::IMPLICIT_VR_LITTLE_ENDIAN.erased(),
        Syntax::ExplicitLE => entries::EXPLICIT_VR_LITTLE_ENDIAN.erased(),
        Syntax::ExplicitBE => entries::EXPLICIT_VR_BIG_ENDIAN.erased(),
    }
}

pub fn ts_deflated() -> TransferSyntax {
    entries::DEFLATED_EXPLICIT_VR_LITTLE_ENDIAN.erased()
}

pub fn vr_of(vr: &[u8; 2]) -> VR {
    VR::from_binary(*vr).unwrap_or(VR::UN)
}

const SINGLE_TEXT: [&[u8; 2]; 4] = [b"LT", b"ST", b"UT", b"UR"];

/// Text of the model as a Rust string: the generator's non-ASCII samples are either valid UTF-8 (data sets
/// declaring ISO_IR 192) or ISO 8859-1 bytes that are not valid UTF-8 (data sets declaring ISO_IR 100)
fn latin1_string(b: &[u8]) -> String {
    if let Some(t) = ds::charset_sample_text(b) {
        return t.to_string();
    }
    // (in the single-valued text VRs a backslash is text: the generator joins its samples with it)
    if b.contains(&b'\\') && b.split(|c| *c == b'\\').any(|p| ds::charset_sample_text(p).is_some()) {
        return b.split(|c| *c == b'\\').map(latin1_string).collect::<Vec<_>>().join("\\");
    }
    if !b.is_ascii() {
        if let Ok(s) = std::str::from_utf8(b) {
            return s.to_string();
        }
    }
    b.iter().map(|&c| c as char).collect()
}

fn digits(b: &[u8]) -> Option<u32> {
    if b.is_empty() || !b.iter().all(|c| c.is_ascii_digit()) {
        return None;
    }
    std::str::from_utf8(b).ok()?.parse().ok()
}

fn typed_date(b: &[u8]) -> Option<DicomDate> {
    match b.len() {
        4 => DicomDate::from_y(digits(b)? as u16).ok(),
        6 => DicomDate::from_ym(digits(&b[..4])? as u16, digits(&b[4..])? as u8).ok(),
        8 => DicomDate::from_ymd(digits(&b[..4])? as u16, digits(&b[4..6])? as u8, digits(&b[6..])? as u8).ok(),
        _ => None,
    }
}

fn typed_time(b: &[u8]) -> Option<DicomTime> {
    let f = |r: std::ops::Range<usize>| digits(&b[r]).map(|x| x as u8);
    match b.len() {
        2 => DicomTime::from_h(f(0..2)?).ok(),
        4 => DicomTime::from_hm(f(0..2)?, f(2..4)?).ok(),
        6 => DicomTime::from_hms(f(0..2)?, f(2..4)?, f(4..6)?).ok(),
        // the public constructors offer exactly 3 or 6 fraction digits
        10 if b[6] == b'.' => DicomTime::from_hms_milli(f(0..2)?, f(2..4)?, f(4..6)?, digits(&b[7..])?).ok(),
        13 if b[6] == b'.' => DicomTime::from_hms_micro(f(0..2)?, f(2..4)?, f(4..6)?, digits(&b[7..])?).ok(),
        _ => None,
    }
}

fn typed_datetime(b: &[u8]) -> Option<DicomDateTime> {
    use dicom_core::chrono::FixedOffset;
    let (body, tz) = match b.iter().position(|c| *c == b'+' || *c == b'-') {
        Some(i) => {
            let z = &b[i + 1..];
            if z.len() != 4 {
                return None;
            }
            let secs = (digits(&z[..2])? * 3600 + digits(&z[2..])? * 60) as i32;
            let off = if b[i] == b'+' { FixedOffset::east_opt(secs)? } else { FixedOffset::west_opt(secs)? };
            (&b[..i], Some(off))
        }
        None => (b, None),
    };
    if body.len() <= 8 {
        let d = typed_date(body)?;
        return Some(match tz {
            Some(z) => DicomDateTime::from_date_with_time_zone(d, z),
            None => DicomDateTime::from_date(d),
        });
    }
    let d = typed_date(&body[..8])?;
    let t = typed_time(&body[8..])?;
    match tz {
        Some(z) => DicomDateTime::from_date_and_time_with_time_zone(d, t, z).ok(),
        None => DicomDateTime::from_date_and_time(d, t).ok(),
    }
}

/// The same abstract value as a *typed* in-memory value (dates, times,
/// date-times; integers and decimals for IS/DS) when every component of the
/// text has a form the public constructors can express and whose standard
/// text form is the text itself. `None`: only the string form exists.
pub fn typed_value(vr: &[u8; 2], b: &[u8]) -> Option<PrimitiveValue> {
    if b.is_empty() {
        return None;
    }
    let parts: Vec<&[u8]> = b.split(|c| *c == b'\\').collect();
    match vr {
        b"DA" => Some(PrimitiveValue::Date(parts.iter().map(|p| typed_date(p)).collect::<Option<_>>()?)),
        b"TM" => Some(PrimitiveValue::Time(parts.iter().map(|p| typed_time(p)).collect::<Option<_>>()?)),
        b"DT" => Some(PrimitiveValue::DateTime(parts.iter().map(|p| typed_datetime(p)).collect::<Option<_>>()?)),
        b"IS" => {
            let mut v = Vec::new();
            for p in &parts {
                let t = std::str::from_utf8(p).ok()?;
                let n: i32 = t.parse().ok()?;
                if n.to_string() != t {
                    return None;
                }
                v.push(n);
            }
            Some(PrimitiveValue::I32(v.into_iter().collect()))
        }
        b"DS" => {
            let mut v = Vec::new();
            for p in &parts {
                let t = std::str::from_utf8(p).ok()?;
                let n: f64 = t.parse().ok()?;
                if n.to_string() != t {
                    return None;
                }
                v.push(n);
            }
            Some(PrimitiveValue::F64(v.into_iter().collect()))
        }
        _ => None,
    }
}

fn content_coin(tag: ds::Tag, b: &[u8]) -> bool {
    // a function of the (tape-drawn) content, so that no extra draw is needed
    let mut h: u32 = 0x811C_9DC5 ^ ((tag.0 as u32) << 16 | tag.1 as u32);
    for c in b {
        h = (h ^ *c as u32).wrapping_mul(0x0100_0193);
    }
    (h >> 7) & 1 == 0
}

pub fn prim_value(vr: &[u8; 2], p: &Prim) -> PrimitiveValue {
    match p {
        Prim::Text(b) => {
            if b.is_empty() {
                PrimitiveValue::Empty
            } else if SINGLE_TEXT.contains(&vr) || !b.contains(&b'\\') {
                PrimitiveValue::Str(latin1_string(b))
            } else {
                PrimitiveValue::Strs(b.split(|c| *c == b'\\').map(latin1_string).collect())
            }
        }
        Prim::Raw(b) => PrimitiveValue::U8(b.iter().cloned().collect()),
        Prim::Bytes(b) => {
            if b.is_empty() {
                PrimitiveValue::Empty
            } else {
                PrimitiveValue::U8(b.iter().cloned().collect())
            }
        }
        Prim::U16(v) if v.is_empty() => PrimitiveValue::Empty,
        Prim::I16(v) if v.is_empty() => PrimitiveValue::Empty,
        Prim::U32(v) if v.is_empty() => PrimitiveValue::Empty,
        Prim::I32(v) if v.is_empty() => PrimitiveValue::Empty,
        Prim::U64(v) if v.is_empty() => PrimitiveValue::Empty,
        Prim::I64(v) if v.is_empty() => PrimitiveValue::Empty,
        Prim::F32(v) if v.is_empty() => PrimitiveValue::Empty,
        Prim::F64(v) if v.is_empty() => PrimitiveValue::Empty,
        Prim::At(v) if v.is_empty() => PrimitiveValue::Empty,
        Prim::U16(v) => PrimitiveValue::U16(v.iter().cloned().collect()),
        Prim::I16(v) => PrimitiveValue::I16(v.iter().cloned().collect()),
        Prim::U32(v) => PrimitiveValue::U32(v.iter().cloned().collect()),
        Prim::I32(v) => PrimitiveValue::I32(v.iter().cloned().collect()),
        Prim::U64(v) => PrimitiveValue::U64(v.iter().cloned().collect()),
        Prim::I64(v) => PrimitiveValue::I64(v.iter().cloned().collect()),
        Prim::F32(v) => PrimitiveValue::F32(v.iter().map(|b| f32::from_bits(*b)).collect()),
        Prim::F64(v) => PrimitiveValue::F64(v.iter().map(|b| f64::from_bits(*b)).collect()),
        Prim::At(v) => PrimitiveValue::Tags(v.iter().map(|t| Tag(t.0, t.1)).collect()),
    }
}

thread_local! {
    /// how many elements `build_object` gave a typed (non-string) date/time/number value
    pub static TYPED_BUILT: std::cell::Cell<u64> = const { std::cell::Cell::new(0) };
}

/// Build the object through the public API. Items built this way always have
/// undefined length (the API offers nothing else); a sequence can carry a
/// defined length, which is computed for `syn` by the reference encoder.
pub fn build_object(elems: &[Elem], syn: Syntax) -> InMemDicomObject {
    let mut v = Vec::new();
    for e in elems {
        let tag = Tag(e.tag.0, e.tag.1);
        let de = match &e.val {
            Val::Prim(Prim::Text(b)) if content_coin(e.tag, b) && typed_value(&e.vr, b).is_some() => {
                TYPED_BUILT.with(|c| c.set(c.get() + 1));
                DataElement::new(tag, vr_of(&e.vr), typed_value(&e.vr, b).unwrap())
            }
            Val::Prim(p) => DataElement::new(tag, vr_of(&e.vr), prim_value(&e.vr, p)),
            Val::Seq { items, undef } => {
                let objs: Vec<InMemDicomObject> = items.iter().map(|it| build_object(&it.elems, syn)).collect();
                let len = if *undef {
                    Length::UNDEFINED
                } else {
                    // content length with every item (recursively) of undefined length
                    let forced = force_items_undef(items);
                    let n = ds::encode(
                        &[Elem {
                            tag: e.tag,
                            vr: *b"SQ",
                            val: Val::Seq {
                                items: forced,
                                undef: true,
                            },
                        }],
                        syn,
                        None,
                    )
                    .map(|(b, _)| b.len())
                    .unwrap_or(0);
                    // minus header and sequence delimiter
                    let hdr = if syn.explicit() { 12 } else { 8 };
                    Length((n - hdr - 8) as u32)
                };
                DataElement::new(tag, VR::SQ, DataSetSequence::new(objs, len))
            }
            Val::Frags { bot, frags } => DataElement::new(tag, VR::OB, PixelFragmentSequence::new(bot.clone(), frags.clone())),
        };
        v.push(de);
    }
    InMemDicomObject::from_element_iter(v)
}

/// Same model with every item undefined; nested sequences keep their flag.
pub fn force_items_undef(items: &[ds::Item]) -> Vec<ds::Item> {
    items
        .iter()
        .map(|it| ds::Item {
            undef: true,
            elems: it
                .elems
                .iter()
                .map(|e| match &e.val {
                    Val::Seq { items, undef } => Elem {
                        tag: e.tag,
                        vr: e.vr,
                        val: Val::Seq {
                            items: force_items_undef(items),
                            undef: *undef,
                        },
                    },
                    _ => e.clone(),
                })
                .collect(),
        })
        .collect()
}

pub fn model_items_undef(elems: &[Elem]) -> Vec<Elem> {
    elems
        .iter()
        .map(|e| match &e.val {
            Val::Seq { items, undef } => Elem {
                tag: e.tag,
                vr: e.vr,
                val: Val::Seq {
                    items: force_items_undef(items),
                    undef: *undef,
                },
            },
            _ => e.clone(),
        })
        .collect()
}

/// drop what a syntax cannot carry (encapsulated pixel data outside Explicit LE)
pub fn restrict_to(elems: &[Elem], syn: Syntax) -> Vec<Elem> {
    elems
        .iter()
        .filter(|e| syn == Syntax::ExplicitLE || !matches!(e.val, Val::Frags { .. }))
        .cloned()
        .collect()
}

pub struct Lookups {
    pub seqs: Vec<ds::Tag>,
    pub vrs: Vec<(ds::Tag, [u8; 2])>,
}

impl Lookups {
    pub fn of(elems: &[Elem]) -> Lookups {
        let mut seqs = Vec::new();
        ds::seq_tags(elems, &mut seqs);
        Lookups {
            seqs,
            vrs: ds::unambiguous_vr_map(elems),
        }
    }
    pub fn parse(&self, bytes: &[u8], syn: Syntax) -> Result<Vec<ds::PElem>, String> {
        let is_seq = |t: ds::Tag| self.seqs.contains(&t);
        let vr_of = |t: ds::Tag| self.vrs.iter().find(|x| x.0 == t).map(|x| x.1);
        let p = ds::parse(bytes, syn, &is_seq, &vr_of)?;
        ds::check_padding(&p, &vr_of)?;
        Ok(p)
    }
}

pub fn describe(elems: &[Elem]) -> String {
    let mut s = String::new();
    for e in elems.iter().take(12) {
        let v = match &e.val {
            Val::Prim(p) => match p {
                Prim::Text(b) => format!("{:?}", String::from_utf8_lossy(b)),
                Prim::Bytes(b) => format!("{}B", b.len()),
                other => {
                    let d = format!("{:?}", other);
                    d.chars().take(40).collect()
                }
            },
            Val::Seq { items, undef } => format!(
                "SQ{}[{}]",
                if *undef { "u" } else { "d" },
                items.iter().map(|i| format!("{}{}", if i.undef { "u" } else { "d" }, describe(&i.elems))).collect::<Vec<_>>().join(";")
            ),
            Val::Frags { bot, frags } => format!("frags bot={:?} {:?}", bot, frags.iter().map(|f| f.len()).collect::<Vec<_>>()),
        };
        s.push_str(&format!("({:04X},{:04X}){}={} ", e.tag.0, e.tag.1, ds::vr_str(&e.vr), v));
    }
    if elems.len() > 12 {
        s.push_str("...");
    }
    s
}

/// Structural object equality: same tags in the same order, same VR, equal
/// values; sequence/item *length fields* are not compared (dicom-rs' own `==`
/// treats two undefined lengths as different, so `obj == obj` is false for
/// any object holding an undefined-length sequence).
pub fn obj_diff(a: &InMemDicomObject, b: &InMemDicomObject, path: &str) -> Option<String> {
    use dicom_core::header::Header;
    use dicom_core::value::Value;
    let mut ia = a.iter();
    let mut ib = b.iter();
    loop {
        match (ia.next(), ib.next()) {
            (None, None) => return None,
            (Some(x), None) => return Some(format!("{}: extra element {} on the left", path, x.tag())),
            (None, Some(y)) => return Some(format!("{}: extra element {} on the right", path, y.tag())),
            (Some(x), Some(y)) => {
                if x.tag() != y.tag() {
                    return Some(format!("{}: tag {} vs {}", path, x.tag(), y.tag()));
                }
                if x.vr() != y.vr() {
                    return Some(format!("{}{}: VR {} vs {}", path, x.tag(), x.vr(), y.vr()));
                }
                match (x.value(), y.value()) {
                    (Value::Primitive(p), Value::Primitive(q)) => {
                        if p != q {
                            return Some(format!("{}{}: value {:?} vs {:?}", path, x.tag(), p, q));
                        }
                    }
                    (Value::Sequence(s), Value::Sequence(t)) => {
                        if s.items().len() != t.items().len() {
                            return Some(format!("{}{}: {} items vs {}", path, x.tag(), s.items().len(), t.items().len()));
                        }
                        for (i, (u, v)) in s.items().iter().zip(t.items().iter()).enumerate() {
                            if let Some(d) = obj_diff(u, v, &format!("{}{}[{}].", path, x.tag(), i)) {
                                return Some(d);
                            }
                        }
                    }
                    (Value::PixelSequence(s), Value::PixelSequence(t)) => {
                        if s.offset_table() != t.offset_table() {
                            return Some(format!("{}{}: offset table {:?} vs {:?}", path, x.tag(), s.offset_table(), t.offset_table()));
                        }
                        if s.fragments() != t.fragments() {
                            return Some(format!("{}{}: fragments differ ({} vs {})", path, x.tag(), s.fragments().len(), t.fragments().len()));
                        }
                    }
                    _ => return Some(format!("{}{}: value kinds differ", path, x.tag())),
                }
            }
        }
    }
}

/// Structure of an object read by dicom-rs against the abstract model: same
/// tags in order, same item counts, same fragments and offset table.
pub fn shape_diff(obj: &InMemDicomObject, model: &[Elem], path: &str) -> Option<String> {
    use dicom_core::header::Header;
    use dicom_core::value::Value;
    let els: Vec<_> = obj.iter().collect();
    if els.len() != model.len() {
        return Some(format!("{}: {} elements read, the data set has {}", path, els.len(), model.len()));
    }
    for (x, m) in els.iter().zip(model.iter()) {
        if x.tag() != Tag(m.tag.0, m.tag.1) {
            return Some(format!("{}: element {} where ({:04X},{:04X}) is expected", path, x.tag(), m.tag.0, m.tag.1));
        }
        match (x.value(), &m.val) {
            (Value::Sequence(s), Val::Seq { items, .. }) => {
                if s.items().len() != items.len() {
                    return Some(format!("{}{}: {} items read, {} in the data set", path, x.tag(), s.items().len(), items.len()));
                }
                for (i, (u, v)) in s.items().iter().zip(items.iter()).enumerate() {
                    if let Some(d) = shape_diff(u, &v.elems, &format!("{}{}[{}].", path, x.tag(), i)) {
                        return Some(d);
                    }
                }
            }
            (Value::PixelSequence(s), Val::Frags { bot, frags }) => {
                if s.offset_table() != &bot[..] {
                    return Some(format!("{}{}: offset table {:?} read, {:?} in the data set", path, x.tag(), s.offset_table(), bot));
                }
                if s.fragments().len() != frags.len() {
                    return Some(format!("{}{}: {} fragments read, {} in the data set", path, x.tag(), s.fragments().len(), frags.len()));
                }
                for (i, (a, b)) in s.fragments().iter().zip(frags.iter()).enumerate() {
                    if a != b {
                        return Some(format!("{}{}: fragment {} differs ({} vs {} bytes)", path, x.tag(), i, a.len(), b.len()));
                    }
                }
            }
            (Value::Primitive(_), Val::Prim(_)) => {}
            _ => return Some(format!("{}{}: value kind differs from the data set", path, x.tag())),
        }
    }
    None
}
