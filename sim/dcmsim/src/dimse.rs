//! Independent DIMSE command-set helpers (PS3.7: Implicit VR Little Endian,
//! group 0000 with group length) for the scripted peers of C32/C33, and
//! P-DATA fragmentation helpers over the reference PS3.8 encoder.

use dcmref::ds::{self, Elem, PElem, PVal, Prim, Syntax, Tag, Val};
use dcmref::pdu::{self as rp, RPdu, RPdv};
use simcore::Tape;

pub fn cmd_elem_ui(tag: Tag, s: &[u8]) -> Elem {
    Elem { tag, vr: *b"UI", val: Val::Prim(Prim::Text(s.to_vec())) }
}
pub fn cmd_elem_us(tag: Tag, v: u16) -> Elem {
    Elem { tag, vr: *b"US", val: Val::Prim(Prim::U16(vec![v])) }
}

/// encode a command set (elements of group 0000 other than the group length, in tag order)
pub fn encode_command(elems: &[Elem]) -> Vec<u8> {
    let (body, _) = ds::encode(elems, Syntax::ImplicitLE, None).expect("command set encodes");
    let mut out = Vec::with_capacity(body.len() + 12);
    out.extend_from_slice(&[0, 0, 0, 0, 4, 0, 0, 0]);
    out.extend_from_slice(&(body.len() as u32).to_le_bytes());
    out.extend_from_slice(&body);
    out
}

pub fn c_store_rq(sop_class: &[u8], sop_instance: &[u8], msg_id: u16) -> Vec<u8> {
    encode_command(&[
        cmd_elem_ui((0, 0x0002), sop_class),
        cmd_elem_us((0, 0x0100), 0x0001),
        cmd_elem_us((0, 0x0110), msg_id),
        cmd_elem_us((0, 0x0700), 0),
        cmd_elem_us((0, 0x0800), 0x0000),
        cmd_elem_ui((0, 0x1000), sop_instance),
    ])
}

pub fn c_echo_rq(msg_id: u16) -> Vec<u8> {
    encode_command(&[cmd_elem_ui((0, 0x0002), b"1.2.840.10008.1.1"), cmd_elem_us((0, 0x0100), 0x0030), cmd_elem_us((0, 0x0110), msg_id), cmd_elem_us((0, 0x0800), 0x0101)])
}

pub fn c_store_rsp(sop_class: &[u8], sop_instance: &[u8], msg_id: u16, status: u16) -> Vec<u8> {
    encode_command(&[
        cmd_elem_ui((0, 0x0002), sop_class),
        cmd_elem_us((0, 0x0100), 0x8001),
        cmd_elem_us((0, 0x0120), msg_id),
        cmd_elem_us((0, 0x0800), 0x0101),
        cmd_elem_us((0, 0x0900), status),
        cmd_elem_ui((0, 0x1000), sop_instance),
    ])
}

#[derive(Clone, Debug, Default)]
pub struct Command {
    pub elems: Vec<PElem>,
}

impl Command {
    pub fn parse(bytes: &[u8]) -> Result<Command, String> {
        let elems = ds::parse(bytes, Syntax::ImplicitLE, &|_| false, &|_| None)?;
        // group length must cover exactly the rest
        match elems.first() {
            Some(PElem { tag: (0, 0), val: PVal::Bytes(b), .. }) if b.len() == 4 => {
                let gl = u32::from_le_bytes([b[0], b[1], b[2], b[3]]) as usize;
                if gl + 12 != bytes.len() {
                    return Err(format!("command group length {} but {} bytes follow", gl, bytes.len() - 12));
                }
            }
            _ => return Err("command set does not start with (0000,0000) UL".into()),
        }
        Ok(Command { elems })
    }
    pub fn bytes(&self, tag: Tag) -> Option<&[u8]> {
        self.elems.iter().find(|e| e.tag == tag).and_then(|e| match &e.val {
            PVal::Bytes(b) => Some(&b[..]),
            _ => None,
        })
    }
    pub fn u16(&self, tag: Tag) -> Option<u16> {
        self.bytes(tag).filter(|b| b.len() == 2).map(|b| u16::from_le_bytes([b[0], b[1]]))
    }
    pub fn uid(&self, tag: Tag) -> Option<Vec<u8>> {
        self.bytes(tag).map(|b| ds::trim_uid(b).to_vec())
    }
}

/// one PDV to send
#[derive(Clone, Debug)]
pub struct Frag {
    pub ctx: u8,
    pub command: bool,
    pub last: bool,
    pub data: Vec<u8>,
}

impl Frag {
    pub fn to_pdv(&self) -> RPdv {
        RPdv { ctx: self.ctx, header: (self.command as u8) | ((self.last as u8) << 1), data: self.data.clone() }
    }
}

/// cut `data` into fragments (possibly empty ones, possibly an empty last fragment) each at most `max_frag` bytes
pub fn fragment(w: &mut Tape, ctx: u8, command: bool, data: &[u8], max_frag: usize, allow_empty: bool) -> Vec<Frag> {
    let mut out = Vec::new();
    let mut pos = 0;
    let style = w.weighted(&[4, 3, 2, 1]);
    while pos < data.len() {
        let rest = data.len() - pos;
        let n = match style {
            0 => rest.min(max_frag),
            1 => (1 + w.below(rest.min(1 << 30) as u32) as usize).min(max_frag),
            2 => (1 + w.below(64) as usize).min(rest).min(max_frag),
            _ => {
                if allow_empty && w.chance(1, 4) {
                    0
                } else {
                    (1 + w.below(rest.min(1 << 30) as u32) as usize).min(max_frag)
                }
            }
        };
        out.push(Frag { ctx, command, last: false, data: data[pos..pos + n].to_vec() });
        pos += n;
        if out.len() > 64 {
            // finish in maximal pieces
            while pos < data.len() {
                let n = (data.len() - pos).min(max_frag);
                out.push(Frag { ctx, command, last: false, data: data[pos..pos + n].to_vec() });
                pos += n;
            }
        }
    }
    if out.is_empty() || (allow_empty && w.chance(1, 6)) {
        // an empty last fragment closes the message
        out.push(Frag { ctx, command, last: true, data: Vec::new() });
    } else {
        out.last_mut().unwrap().last = true;
    }
    out
}

/// group fragments into P-DATA PDUs no longer than `max_pdu` (length field), keeping order
pub fn pack(w: &mut Tape, frags: &[Frag], max_pdu: usize) -> Vec<Vec<u8>> {
    let mut pdus = Vec::new();
    let mut cur: Vec<RPdv> = Vec::new();
    let mut cur_len = 0usize;
    for f in frags {
        let need = 6 + f.data.len();
        let close = !cur.is_empty() && (cur_len + need > max_pdu || w.chance(1, 2));
        if close {
            pdus.push(rp::encode(&RPdu::PData(std::mem::take(&mut cur))).expect("P-DATA encodes"));
            cur_len = 0;
        }
        cur.push(f.to_pdv());
        cur_len += need;
    }
    if !cur.is_empty() {
        pdus.push(rp::encode(&RPdu::PData(cur)).expect("P-DATA encodes"));
    }
    pdus
}

/// reassembled message parts received in P-DATA PDUs: (ctx, is_command, bytes) per completed part
#[derive(Default)]
pub struct Reassembler {
    cur: Option<(u8, bool, Vec<u8>)>,
    pub done: Vec<(u8, bool, Vec<u8>)>,
    pub errors: Vec<String>,
}

impl Reassembler {
    pub fn feed(&mut self, pdvs: &[RPdv]) {
        for v in pdvs {
            let cmd = v.header & 1 == 1;
            let last = v.header & 2 == 2;
            match &mut self.cur {
                Some((ctx, c, buf)) => {
                    if *ctx != v.ctx || *c != cmd {
                        self.errors.push(format!("fragment of ctx {} command={} inside an unfinished part of ctx {} command={}", v.ctx, cmd, ctx, c));
                    }
                    buf.extend_from_slice(&v.data);
                }
                None => self.cur = Some((v.ctx, cmd, v.data.clone())),
            }
            if last {
                self.done.push(self.cur.take().unwrap());
            }
        }
    }
}
