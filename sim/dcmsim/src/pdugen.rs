//! Tape-driven generator of well-formed `dicom_ul::Pdu` values (strings within
//! their documented repertoires, so that a lossless round trip is expected).

use dicom_ul::pdu::*;
use simcore::{pattern_bytes, Tape};

pub const UID_POOL: [&str; 10] = [
    "1.2.840.10008.1.1",
    "1.2.840.10008.5.1.4.1.1.2",
    "1.2.840.10008.5.1.4.1.1.4",
    "1.2.840.10008.5.1.4.1.1.7",
    "1.2.840.10008.1.2",
    "1.2.840.10008.1.2.1",
    "1.2.840.10008.1.2.2",
    "1.2.840.10008.1.2.4.50",
    "1.2.840.10008.3.1.1.1",
    "1.3.6.1.4.1.9999.1.2.3",
];

pub fn gen_uid(t: &mut Tape) -> String {
    if t.chance(3, 4) {
        t.pick(&UID_POOL).to_string()
    } else {
        // random UID: components of digits, <= 64 chars, odd or even length
        let n = 1 + t.below(8);
        let mut s = String::from("1");
        for _ in 0..n {
            s.push('.');
            let c = t.below(100000);
            s.push_str(&c.to_string());
            if s.len() > 56 {
                break;
            }
        }
        s
    }
}

/// AE title: 0..=16 printable ASCII characters, no leading/trailing space
pub fn gen_ae(t: &mut Tape) -> String {
    match t.weighted(&[4, 1, 1, 3]) {
        0 => ["STORE-SCP", "ANY-SCP", "THIS-SCU", "A"][t.below(4) as usize].to_string(),
        1 => String::new(),
        2 => "SIXTEEN-CHARS-AE".to_string(),
        _ => {
            let n = 1 + t.below(16) as usize;
            let mut s = String::new();
            for i in 0..n {
                let inner = i > 0 && i + 1 < n;
                let c = if inner && t.chance(1, 8) {
                    b' '
                } else {
                    0x21 + t.below(0x7E - 0x21 + 1) as u8
                };
                s.push(c as char);
            }
            s
        }
    }
}

fn gen_blob(t: &mut Tape, big: bool) -> Vec<u8> {
    let len = if big {
        match t.weighted(&[6, 2, 1, 1]) {
            0 => t.below(12),
            1 => t.below(600),
            2 => 65000 + t.below(1200), // around the 16-bit limit
            _ => t.below(70001),
        }
    } else {
        t.below(24)
    };
    let p = t.below(4);
    pattern_bytes(p, len as usize)
}

pub fn gen_user_variables(t: &mut Tape, big: bool) -> Vec<UserVariableItem> {
    let n = match t.weighted(&[3, 1, 3, 1]) {
        0 => 3,
        1 => 0,
        2 => 1 + t.below(6),
        _ => 1 + t.below(40),
    };
    let mut v = Vec::new();
    for i in 0..n {
        let kind = if i < 3 && n == 3 { i } else { t.below(7) };
        v.push(match kind {
            0 => UserVariableItem::MaxLength(match t.below(5) {
                0 => 16384,
                1 => 0,
                2 => 1018,
                3 => u32::MAX,
                _ => t.below(200000),
            }),
            1 => UserVariableItem::ImplementationClassUID(gen_uid(t)),
            2 => UserVariableItem::ImplementationVersionName(
                ["DICOM-rs 0.8.1", "V", "SIXTEEN-CHARS-VE"][t.below(3) as usize].to_string(),
            ),
            3 => UserVariableItem::ScuScpRoleSelectionSubItem(
                gen_uid(t),
                RequestorRoles {
                    scu: t.chance(1, 2),
                    scp: t.chance(1, 2),
                },
            ),
            4 => UserVariableItem::SopClassExtendedNegotiationSubItem(gen_uid(t), gen_blob(t, big)),
            5 => {
                let ty = [
                    UserIdentityType::Username,
                    UserIdentityType::UsernamePassword,
                    UserIdentityType::KerberosServiceTicket,
                    UserIdentityType::SamlAssertion,
                    UserIdentityType::Jwt,
                ][t.below(5) as usize]
                    .clone();
                UserVariableItem::UserIdentityItem(UserIdentity::new(
                    t.chance(1, 2),
                    ty,
                    gen_blob(t, big),
                    gen_blob(t, false),
                ))
            }
            _ => {
                // an item type this implementation does not know
                let known = [0x51u8, 0x52, 0x54, 0x55, 0x56, 0x58];
                let mut ty = t.below(256) as u8;
                while known.contains(&ty) {
                    ty = ty.wrapping_add(7);
                }
                UserVariableItem::Unknown(ty, gen_blob(t, big))
            }
        });
    }
    v
}

fn gen_pc_count(t: &mut Tape) -> u32 {
    match t.weighted(&[4, 1, 3, 1]) {
        0 => 1,
        1 => 0,
        2 => 1 + t.below(5),
        _ => t.below(129),
    }
}

pub fn gen_pdata(t: &mut Tape, max_data: u32) -> Pdu {
    let n = match t.weighted(&[5, 2, 1]) {
        0 => 1,
        1 => 2,
        _ => t.below(5),
    };
    let mut data = Vec::new();
    for _ in 0..n {
        let len = t.size(max_data, &[0, 1, max_data]);
        data.push(PDataValue {
            presentation_context_id: (t.below(128) * 2 + 1) as u8,
            value_type: if t.chance(1, 2) {
                PDataValueType::Command
            } else {
                PDataValueType::Data
            },
            is_last: t.chance(1, 2),
            data: pattern_bytes(t.below(4), len as usize),
        });
    }
    Pdu::PData { data }
}

pub struct GenOpts {
    /// allow sub-items that approach / exceed the 16-bit item length limit
    pub big: bool,
    /// largest P-DATA value payload
    pub max_pdata: u32,
    /// allow Unknown PDU types
    pub unknown: bool,
}

pub fn gen_pdu(t: &mut Tape, o: &GenOpts) -> Pdu {
    let kind = t.weighted(&[3, 2, 2, 1, 1, 1, 1, if o.unknown { 1 } else { 0 }]);
    match kind {
        0 => gen_pdata(t, o.max_pdata),
        1 => {
            let n = gen_pc_count(t);
            let mut pcs = Vec::new();
            for i in 0..n {
                let nts = match t.weighted(&[4, 3, 1]) {
                    0 => 1,
                    1 => 1 + t.below(3),
                    _ => t.below(9),
                };
                pcs.push(PresentationContextProposed {
                    id: ((2 * i + 1) % 256) as u8,
                    abstract_syntax: gen_uid(t),
                    transfer_syntaxes: (0..nts).map(|_| gen_uid(t)).collect(),
                });
            }
            Pdu::AssociationRQ(AssociationRQ {
                protocol_version: if t.chance(1, 8) { t.below(65536) as u16 } else { 1 },
                calling_ae_title: gen_ae(t),
                called_ae_title: gen_ae(t),
                application_context_name: gen_uid(t),
                presentation_contexts: pcs,
                user_variables: gen_user_variables(t, o.big),
            })
        }
        2 => {
            let n = gen_pc_count(t);
            let mut pcs = Vec::new();
            for i in 0..n {
                pcs.push(PresentationContextResult {
                    id: ((2 * i + 1) % 256) as u8,
                    reason: [
                        PresentationContextResultReason::Acceptance,
                        PresentationContextResultReason::UserRejection,
                        PresentationContextResultReason::NoReason,
                        PresentationContextResultReason::AbstractSyntaxNotSupported,
                        PresentationContextResultReason::TransferSyntaxesNotSupported,
                    ][t.below(5) as usize]
                        .clone(),
                    transfer_syntax: gen_uid(t),
                });
            }
            Pdu::AssociationAC(AssociationAC {
                protocol_version: if t.chance(1, 8) { t.below(65536) as u16 } else { 1 },
                calling_ae_title: gen_ae(t),
                called_ae_title: gen_ae(t),
                application_context_name: gen_uid(t),
                presentation_contexts: pcs,
                user_variables: gen_user_variables(t, o.big),
            })
        }
        3 => {
            let source = match t.below(3) {
                0 => AssociationRJSource::ServiceUser(match t.below(5) {
                    0 => AssociationRJServiceUserReason::NoReasonGiven,
                    1 => AssociationRJServiceUserReason::ApplicationContextNameNotSupported,
                    2 => AssociationRJServiceUserReason::CallingAETitleNotRecognized,
                    3 => AssociationRJServiceUserReason::CalledAETitleNotRecognized,
                    _ => AssociationRJServiceUserReason::Reserved([4, 5, 6, 8, 9, 10][t.below(6) as usize]),
                }),
                1 => AssociationRJSource::ServiceProviderASCE(if t.chance(1, 2) {
                    AssociationRJServiceProviderASCEReason::NoReasonGiven
                } else {
                    AssociationRJServiceProviderASCEReason::ProtocolVersionNotSupported
                }),
                _ => AssociationRJSource::ServiceProviderPresentation(match t.below(3) {
                    0 => AssociationRJServiceProviderPresentationReason::TemporaryCongestion,
                    1 => AssociationRJServiceProviderPresentationReason::LocalLimitExceeded,
                    _ => AssociationRJServiceProviderPresentationReason::Reserved(
                        [0, 3, 4, 5, 6, 7][t.below(6) as usize],
                    ),
                }),
            };
            Pdu::AssociationRJ(AssociationRJ {
                result: if t.chance(1, 2) {
                    AssociationRJResult::Permanent
                } else {
                    AssociationRJResult::Transient
                },
                source,
            })
        }
        4 => Pdu::ReleaseRQ,
        5 => Pdu::ReleaseRP,
        6 => Pdu::AbortRQ {
            source: match t.below(9) {
                0 => AbortRQSource::ServiceUser,
                1 => AbortRQSource::Reserved,
                2 => AbortRQSource::ServiceProvider(AbortRQServiceProviderReason::ReasonNotSpecified),
                3 => AbortRQSource::ServiceProvider(AbortRQServiceProviderReason::UnrecognizedPdu),
                4 => AbortRQSource::ServiceProvider(AbortRQServiceProviderReason::UnexpectedPdu),
                5 => AbortRQSource::ServiceProvider(AbortRQServiceProviderReason::Reserved),
                6 => AbortRQSource::ServiceProvider(AbortRQServiceProviderReason::UnrecognizedPduParameter),
                7 => AbortRQSource::ServiceProvider(AbortRQServiceProviderReason::UnexpectedPduParameter),
                _ => AbortRQSource::ServiceProvider(AbortRQServiceProviderReason::InvalidPduParameter),
            },
        },
        _ => {
            let mut ty = t.below(256) as u8;
            while (1..=7).contains(&ty) {
                ty = ty.wrapping_add(8);
            }
            let len = t.size(o.max_pdata, &[0, 1, 4]);
            Pdu::Unknown {
                pdu_type: ty,
                data: pattern_bytes(t.below(4), len as usize),
            }
        }
    }
}
