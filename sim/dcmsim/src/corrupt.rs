//! Storage / transport corruption of a valid byte image: what real
//! deployments meet (torn writes, flipped bits, lost or misdirected blocks)
//! plus layout-aware damage of length fields.

use dcmref::ds::{FieldKind, Layout};
use simcore::{Obs, Tape};

/// offsets of the two most significant bytes of every known 32-bit length field
fn len_msbs(layout: Option<(&Layout, usize)>, be: bool) -> Vec<usize> {
    let mut v = Vec::new();
    if let Some((lay, base)) = layout {
        for f in &lay.fields {
            if matches!(f.kind, FieldKind::Len32 | FieldKind::ItemLen) {
                if be {
                    v.push(base + f.off);
                    v.push(base + f.off + 1);
                } else {
                    v.push(base + f.off + 2);
                    v.push(base + f.off + 3);
                }
            }
        }
    }
    v
}

pub fn corrupt(t: &mut Tape, obs: &mut Obs, data: &mut Vec<u8>, layout: Option<(&Layout, usize)>) {
    // Random damage is kept away from the high bytes of known 32-bit length fields: a length of
    // gigabytes makes the readers allocate and zero that much before they notice the end of input,
    // which is slow (not a hang) and would dominate the run time. Such lengths are still produced,
    // deliberately and rarely, by the layout-aware branch below.
    let protected: Vec<usize> = {
        let mut v = len_msbs(layout, false);
        v.extend(len_msbs(layout, true));
        v
    };
    let n = 1 + t.weighted(&[6, 3, 1]);
    for _ in 0..n {
        if data.is_empty() {
            return;
        }
        let len = data.len();
        let kind = t.weighted(&[3, 4, 3, 2, 2, 1, 2, if layout.is_some() { 6 } else { 0 }, 1]);
        match kind {
            0 => {
                // torn write: the tail is missing
                let k = match t.weighted(&[2, 1, 1]) {
                    0 => t.below(len as u32) as usize,
                    1 => len - 1 - t.below(8.min(len as u32)) as usize,
                    _ => t.below(140.min(len as u32)) as usize,
                };
                data.truncate(k);
                obs.fault("truncate");
            }
            1 => {
                let nb = 1 + t.below(8);
                for _ in 0..nb {
                    let i = t.below(len as u32) as usize;
                    let bit = t.below(8);
                    if protected.contains(&i) {
                        continue;
                    }
                    data[i] ^= 1 << bit;
                }
                obs.fault("bit-flip");
            }
            2 => {
                let i = t.below(len as u32) as usize;
                let v = [0x00u8, 0xFF, 0x7F, 0x80, 0x01, 0xFE][t.below(6) as usize];
                let run = 1 + t.below(4) as usize;
                for j in i..(i + run).min(len) {
                    if protected.contains(&j) && v != 0 && v != 0xFF {
                        continue;
                    }
                    data[j] = v;
                }
                obs.fault("boundary-bytes");
            }
            3 => {
                // lost sector
                let i = t.below(len as u32) as usize;
                let l = (1 + t.below(64) as usize).min(len - i);
                for b in &mut data[i..i + l] {
                    *b = 0;
                }
                obs.fault("zeroed-block");
            }
            4 => {
                // duplicated block (misdirected write)
                let i = t.below(len as u32) as usize;
                let l = (1 + t.below(64) as usize).min(len - i);
                let block = data[i..i + l].to_vec();
                let at = t.below(len as u32 + 1) as usize;
                let reps = if t.chance(1, 6) { 1 + t.below(4096) as usize } else { 1 };
                let mut ins = Vec::with_capacity(l * reps);
                for _ in 0..reps {
                    ins.extend_from_slice(&block);
                }
                data.splice(at..at, ins);
                obs.fault("duplicated-block");
            }
            5 => {
                // transposed blocks
                let i = t.below(len as u32) as usize;
                let j = t.below(len as u32) as usize;
                let l = (1 + t.below(32) as usize).min(len - i.max(j));
                for k in 0..l {
                    data.swap(i + k, j + k);
                }
                obs.fault("transposed-block");
            }
            6 => {
                // spliced block: bytes from elsewhere overwrite a region
                let i = t.below(len as u32) as usize;
                let j = t.below(len as u32) as usize;
                let l = (1 + t.below(64) as usize).min(len - i.max(j));
                let block = data[j..j + l].to_vec();
                data[i..i + l].copy_from_slice(&block);
                obs.fault("spliced-block");
            }
            7 => {
                // layout-aware: damage a length field / tag / VR of a chosen element
                let (lay, base) = layout.unwrap();
                if lay.fields.is_empty() {
                    continue;
                }
                let f = lay.fields[t.below(lay.fields.len() as u32) as usize];
                let off = base + f.off;
                if off + f.len > data.len() {
                    continue;
                }
                match f.kind {
                    FieldKind::Len32 | FieldKind::ItemLen => {
                        // huge values make the readers allocate (and zero) gigabytes before they
                        // notice the end of input: that is slow, not a hang, and is kept rare on purpose
                        let v: u32 = match t.below(10) {
                            0 | 1 => 0xFFFF_FFFF,
                            2 => 0,
                            3 => 1,
                            4 => (data.len() - off) as u32 + 1,
                            5 => (data.len() - off) as u32 - 1,
                            6 => 0x00FF_FFFE,
                            7 => {
                                if t.chance(1, 16) {
                                    [0xFFFF_FFFE, 0x7FFF_FFFF, 0x8000_0000][t.below(3) as usize]
                                } else {
                                    0x0001_0001
                                }
                            }
                            _ => t.below(1 << 20),
                        };
                        let b = if t.chance(1, 2) { v.to_le_bytes() } else { v.to_be_bytes() };
                        data[off..off + 4].copy_from_slice(&b);
                        obs.fault("length-field-32");
                    }
                    FieldKind::Len16 => {
                        let v: u16 = [0xFFFF, 0xFFFE, 1, 0, 0x8000, 3][t.below(6) as usize];
                        data[off..off + 2].copy_from_slice(&v.to_le_bytes());
                        obs.fault("length-field-16");
                    }
                    FieldKind::Vr => {
                        let vrs: [&[u8; 2]; 8] = [b"SQ", b"UN", b"OB", b"OW", b"UT", b"XX", b"AT", b"FD"];
                        data[off..off + 2].copy_from_slice(vrs[t.below(8) as usize]);
                        obs.fault("vr-field");
                    }
                    FieldKind::Tag | FieldKind::ItemHeader | FieldKind::Delim => {
                        let tags: [[u8; 4]; 5] = [[0xFE, 0xFF, 0x00, 0xE0], [0xFE, 0xFF, 0x0D, 0xE0], [0xFE, 0xFF, 0xDD, 0xE0], [0xE0, 0x7F, 0x10, 0x00], [0x08, 0x00, 0x05, 0x00]];
                        data[off..off + 4].copy_from_slice(&tags[t.below(5) as usize]);
                        obs.fault("tag-field");
                    }
                    FieldKind::Value => {
                        if f.len > 0 {
                            let i = off + t.below(f.len as u32) as usize;
                            data[i] = [0u8, 0xFF, b'\\', b'=', b'^', 0x1B][t.below(6) as usize];
                            obs.fault("value-byte");
                        }
                    }
                }
            }
            _ => {
                // nesting bomb: many nested undefined-length sequences
                let depth = if t.chance(1, 8) { [4096usize, 20000][t.below(2) as usize] } else { [8usize, 64, 300][t.below(3) as usize] };
                let at = match layout {
                    Some((lay, base)) if !lay.fields.is_empty() => {
                        let f = lay.fields.iter().filter(|f| f.kind == FieldKind::Tag && f.depth == 0).last();
                        f.map(|f| base + f.off).unwrap_or(len).min(len)
                    }
                    _ => len,
                };
                let explicit = t.chance(1, 2);
                let mut ins = Vec::new();
                for _ in 0..depth {
                    // (0008,1140) SQ undefined length + item undefined length
                    ins.extend_from_slice(&[0x08, 0x00, 0x40, 0x11]);
                    if explicit {
                        ins.extend_from_slice(b"SQ\0\0");
                    }
                    ins.extend_from_slice(&[0xFF, 0xFF, 0xFF, 0xFF]);
                    ins.extend_from_slice(&[0xFE, 0xFF, 0x00, 0xE0, 0xFF, 0xFF, 0xFF, 0xFF]);
                }
                data.splice(at..at, ins);
                obs.fault("nesting-bomb");
            }
        }
    }
}
