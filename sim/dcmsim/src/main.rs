//! dcmsim — deterministic simulation checks for dicom-rs.
//!
//!   dcmsim check <ID> [--tier quick|thorough] [--seed N]
//!   dcmsim replay <file>
//!   dcmsim worker <ID> <seed> <start> <step> <end>       (internal)
//!   dcmsim shrink <ID>   (violation JSON on stdin; internal)
//!   dcmsim selftest-determinism [runs] [ID...]
//!   dcmsim list

/// Leave the process without running exit handlers (a parked "exited" node thread may hold std's exit
/// guard). A coverage build (`--cfg dicom_verif_cov`, tools_coverage.sh) writes its profile first.
pub fn leave(code: i32) -> ! {
    #[cfg(dicom_verif_cov)]
    {
        extern "C" {
            fn __llvm_profile_write_file() -> i32;
        }
        unsafe {
            __llvm_profile_write_file();
        }
    }
    unsafe { libc::_exit(code) }
}

mod checks;
mod convert;
mod corrupt;
mod dimse;
mod dsbuild;
mod framework;
mod nethelp;
mod pdugen;
mod simdisk;
mod simio;
mod simnet;

use std::io::Read;

/// Observing allocator: remembers the largest single allocation request (a
/// probe for C05, and a deterministic way to recognise "this reader just
/// allocated gigabytes because a length field said so").
pub struct PeakAlloc;
pub static PEAK_REQUEST: std::sync::atomic::AtomicUsize = std::sync::atomic::AtomicUsize::new(0);

/// Damaged length fields make the readers under test allocate (and zero)
/// gigabytes before they notice the end of input. To keep that affordable:
/// requests of 64 MiB and more are served by mmap with transparent huge pages
/// (page-fault cost / 512), and at most 4 worker processes at a time may hold
/// a request of 512 MiB or more (file locks), so RAM is never exhausted.
const HUGE: usize = 64 << 20;
const BIG: usize = 512 << 20;
static BIG_COUNT: std::sync::atomic::AtomicUsize = std::sync::atomic::AtomicUsize::new(0);
static BIG_FD: std::sync::atomic::AtomicI32 = std::sync::atomic::AtomicI32::new(-1);

fn big_enter() {
    use std::sync::atomic::Ordering::SeqCst;
    if BIG_COUNT.fetch_add(1, SeqCst) == 0 {
        let mut fd = BIG_FD.load(SeqCst);
        if fd < 0 {
            let slot = unsafe { libc::getpid() } % 4;
            let path = format!("/tmp/dcmsim-bigalloc-{}.lock\0", slot);
            fd = unsafe { libc::open(path.as_ptr() as *const libc::c_char, libc::O_CREAT | libc::O_RDWR, 0o666) };
            BIG_FD.store(fd, SeqCst);
        }
        if fd >= 0 {
            unsafe { libc::flock(fd, libc::LOCK_EX) };
        }
    }
}

fn big_leave() {
    use std::sync::atomic::Ordering::SeqCst;
    if BIG_COUNT.fetch_sub(1, SeqCst) == 1 {
        let fd = BIG_FD.load(SeqCst);
        if fd >= 0 {
            unsafe { libc::flock(fd, libc::LOCK_UN) };
        }
    }
}

fn round2m(n: usize) -> usize {
    (n + (2 << 20) - 1) & !((2 << 20) - 1)
}

unsafe fn huge_alloc(size: usize) -> *mut u8 {
    PEAK_REQUEST.fetch_max(size, std::sync::atomic::Ordering::Relaxed);
    if size >= BIG {
        big_enter();
    }
    let len = round2m(size);
    let p = unsafe { libc::mmap(std::ptr::null_mut(), len, libc::PROT_READ | libc::PROT_WRITE, libc::MAP_PRIVATE | libc::MAP_ANONYMOUS, -1, 0) };
    if p == libc::MAP_FAILED {
        if size >= BIG {
            big_leave();
        }
        return std::ptr::null_mut();
    }
    unsafe { libc::madvise(p, len, libc::MADV_HUGEPAGE) };
    p as *mut u8
}

unsafe fn huge_free(p: *mut u8, size: usize) {
    unsafe { libc::munmap(p as *mut libc::c_void, round2m(size)) };
    if size >= BIG {
        big_leave();
    }
}

unsafe impl std::alloc::GlobalAlloc for PeakAlloc {
    unsafe fn alloc(&self, l: std::alloc::Layout) -> *mut u8 {
        if l.size() >= HUGE && l.align() <= 4096 {
            return unsafe { huge_alloc(l.size()) };
        }
        if l.size() > (1 << 20) {
            PEAK_REQUEST.fetch_max(l.size(), std::sync::atomic::Ordering::Relaxed);
        }
        unsafe { std::alloc::System.alloc(l) }
    }
    unsafe fn dealloc(&self, p: *mut u8, l: std::alloc::Layout) {
        if l.size() >= HUGE && l.align() <= 4096 {
            return unsafe { huge_free(p, l.size()) };
        }
        unsafe { std::alloc::System.dealloc(p, l) };
    }
    unsafe fn alloc_zeroed(&self, l: std::alloc::Layout) -> *mut u8 {
        if l.size() >= HUGE && l.align() <= 4096 {
            // fresh anonymous mappings are zero
            return unsafe { huge_alloc(l.size()) };
        }
        if l.size() > (1 << 20) {
            PEAK_REQUEST.fetch_max(l.size(), std::sync::atomic::Ordering::Relaxed);
        }
        unsafe { std::alloc::System.alloc_zeroed(l) }
    }
    unsafe fn realloc(&self, p: *mut u8, l: std::alloc::Layout, n: usize) -> *mut u8 {
        let old_huge = l.size() >= HUGE && l.align() <= 4096;
        let new_huge = n >= HUGE && l.align() <= 4096;
        if old_huge || new_huge {
            let nl = unsafe { std::alloc::Layout::from_size_align_unchecked(n, l.align()) };
            let q = unsafe { self.alloc(nl) };
            if !q.is_null() {
                unsafe { std::ptr::copy_nonoverlapping(p, q, l.size().min(n)) };
                unsafe { self.dealloc(p, l) };
            }
            return q;
        }
        if n > (1 << 20) {
            PEAK_REQUEST.fetch_max(n, std::sync::atomic::Ordering::Relaxed);
        }
        unsafe { std::alloc::System.realloc(p, l, n) }
    }
}

#[global_allocator]
static GLOBAL: PeakAlloc = PeakAlloc;

fn main() {
    let args: Vec<String> = std::env::args().collect();
    // keep large, short-lived allocations (codec states, PDU buffers) on the heap
    // instead of mmap/munmap per run: the page-fault churn dominated run time
    unsafe {
        libc::mallopt(libc::M_MMAP_THRESHOLD, 1 << 30);
        libc::mallopt(libc::M_TRIM_THRESHOLD, 1 << 30);
    }
    let code = real_main(&args);
    // leave without running destructors of parked threads etc.
    crate::leave(code)
}

fn real_main(args: &[String]) -> i32 {
    if args.len() < 2 {
        eprintln!("usage: dcmsim check|replay|worker|shrink|selftest-determinism|list ...");
        return 2;
    }
    match args[1].as_str() {
        "list" => {
            for c in framework::registry() {
                println!("{} {} {:?}", c.id, c.level, c.configs);
            }
            0
        }
        "check" => {
            let id = match args.get(2) {
                Some(s) => s.clone(),
                None => return 2,
            };
            let mut tier = std::env::var("VERIF_TIER").unwrap_or_else(|_| "quick".into());
            let mut seed: u64 = std::env::var("VERIF_SEED")
                .ok()
                .and_then(|s| s.parse().ok())
                .unwrap_or(framework::DEFAULT_SEED);
            let mut i = 3;
            while i < args.len() {
                match args[i].as_str() {
                    "--tier" => {
                        tier = args.get(i + 1).cloned().unwrap_or(tier);
                        i += 1;
                    }
                    "--seed" => {
                        seed = args.get(i + 1).and_then(|s| s.parse().ok()).unwrap_or(seed);
                        i += 1;
                    }
                    _ => {}
                }
                i += 1;
            }
            framework::check_cmd(&id, &tier, seed)
        }
        "replay" => match args.get(2) {
            Some(p) => framework::replay_cmd(p),
            None => 2,
        },
        "worker" => {
            if args.len() < 7 {
                return 2;
            }
            let p = |i: usize| args[i].parse::<u64>().unwrap_or(0);
            framework::worker(&args[2], p(3), p(4), p(5).max(1), p(6))
        }
        "shrink" => {
            let mut s = String::new();
            let _ = std::io::stdin().read_to_string(&mut s);
            framework::shrink_cmd(&args[2], &s)
        }
        "try" | "final" => {
            let mut s = String::new();
            let _ = std::io::stdin().read_to_string(&mut s);
            framework::try_cmd(&args[2], &s, args[1] == "final")
        }
        "selftest-determinism" => {
            let runs = args.get(2).and_then(|s| s.parse().ok()).unwrap_or(2000);
            framework::selftest_determinism(&args[3.min(args.len())..].to_vec(), runs)
        }
        _ => 2,
    }
}
