//! dcmsim — deterministic simulation checks for dicom-rs.
//!
//!   dcmsim check <ID> [--tier quick|thorough] [--seed N]
//!   dcmsim replay <file>
//!   dcmsim worker <ID> <seed> <start> <step> <end>       (internal)
//!   dcmsim shrink <ID>   (violation JSON on stdin; internal)
//!   dcmsim selftest-determinism [runs] [ID...]
//!   dcmsim list

mod checks;
mod convert;
mod dsbuild;
mod framework;
mod pdugen;
mod simio;

use std::io::Read;

fn main() {
    let args: Vec<String> = std::env::args().collect();
    // keep large, short-lived allocations (codec states, PDU buffers) on the heap
    // instead of mmap/munmap per run: the page-fault churn dominated run time
    unsafe {
        libc::mallopt(libc::M_MMAP_THRESHOLD, 1 << 30);
        libc::mallopt(libc::M_TRIM_THRESHOLD, 1 << 30);
    }
    let code = real_main(&args);
    // leave without running destructors of parked threads etc.
    unsafe { libc::_exit(code) }
}

fn real_main(args: &[String]) -> i32 {
    if args.len() < 2 {
        eprintln!("usage: dcmsim check|replay|worker|shrink|selftest-determinism|list ...");
        return 2;
    }
    match args[1].as_str() {
        "list" => {
            for c in framework::registry() {
                println!("{} {} {:?}", c.id, c.level, c.configs);
            }
            0
        }
        "check" => {
            let id = match args.get(2) {
                Some(s) => s.clone(),
                None => return 2,
            };
            let mut tier = std::env::var("VERIF_TIER").unwrap_or_else(|_| "quick".into());
            let mut seed: u64 = std::env::var("VERIF_SEED")
                .ok()
                .and_then(|s| s.parse().ok())
                .unwrap_or(framework::DEFAULT_SEED);
            let mut i = 3;
            while i < args.len() {
                match args[i].as_str() {
                    "--tier" => {
                        tier = args.get(i + 1).cloned().unwrap_or(tier);
                        i += 1;
                    }
                    "--seed" => {
                        seed = args.get(i + 1).and_then(|s| s.parse().ok()).unwrap_or(seed);
                        i += 1;
                    }
                    _ => {}
                }
                i += 1;
            }
            framework::check_cmd(&id, &tier, seed)
        }
        "replay" => match args.get(2) {
            Some(p) => framework::replay_cmd(p),
            None => 2,
        },
        "worker" => {
            if args.len() < 7 {
                return 2;
            }
            let p = |i: usize| args[i].parse::<u64>().unwrap_or(0);
            framework::worker(&args[2], p(3), p(4), p(5).max(1), p(6))
        }
        "shrink" => {
            let mut s = String::new();
            let _ = std::io::stdin().read_to_string(&mut s);
            framework::shrink_cmd(&args[2], &s)
        }
        "selftest-determinism" => {
            let runs = args.get(2).and_then(|s| s.parse().ok()).unwrap_or(2000);
            framework::selftest_determinism(&args[3.min(args.len())..].to_vec(), runs)
        }
        _ => 2,
    }
}
