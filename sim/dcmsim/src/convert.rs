//! Mapping between `dicom_ul::Pdu` values and the independent reference
//! representation `dcmref::pdu::RPdu` (what PS3.8 says the wire form of that
//! value is). Written from the standard, not from dicom-rs' writer.

use dcmref::pdu::*;
use dicom_ul::pdu::*;

fn latin1(s: &str) -> Vec<u8> {
    s.chars().map(|c| if (c as u32) < 256 { c as u32 as u8 } else { b'?' }).collect()
}

pub fn result_reason_code(r: &PresentationContextResultReason) -> u8 {
    match r {
        PresentationContextResultReason::Acceptance => 0,
        PresentationContextResultReason::UserRejection => 1,
        PresentationContextResultReason::NoReason => 2,
        PresentationContextResultReason::AbstractSyntaxNotSupported => 3,
        PresentationContextResultReason::TransferSyntaxesNotSupported => 4,
    }
}

/// the user variables as (sub-item type, content) pairs, in order
pub fn uservars_subs(uv: &[UserVariableItem]) -> Vec<(u8, Vec<u8>)> {
    match uservars_to_ref(uv) {
        Ok(Some(RItem::UserInfo(subs))) => subs.into_iter().map(|s| (s.ty, s.data)).collect(),
        _ => Vec::new(),
    }
}

fn uservars_to_ref(uv: &[UserVariableItem]) -> Result<Option<RItem>, String> {
    if uv.is_empty() {
        // PS3.8 requires one user information item; a Pdu value with no user
        // variables has no faithful wire form. dicom-rs omits the item; accept
        // that reading.
        return Ok(None);
    }
    let mut subs = Vec::new();
    for v in uv {
        subs.push(match v {
            UserVariableItem::MaxLength(n) => sub_max_length(*n),
            UserVariableItem::ImplementationClassUID(s) => sub_impl_class_uid(&latin1(s)),
            UserVariableItem::ImplementationVersionName(s) => sub_impl_version(&latin1(s)),
            UserVariableItem::ScuScpRoleSelectionSubItem(uid, r) => {
                sub_role(&latin1(uid), r.scu as u8, r.scp as u8)?
            }
            UserVariableItem::SopClassExtendedNegotiationSubItem(uid, d) => sub_ext_neg(&latin1(uid), d)?,
            UserVariableItem::UserIdentityItem(u) => {
                let ty = match u.identity_type() {
                    UserIdentityType::Username => 1,
                    UserIdentityType::UsernamePassword => 2,
                    UserIdentityType::KerberosServiceTicket => 3,
                    UserIdentityType::SamlAssertion => 4,
                    UserIdentityType::Jwt => 5,
                    _ => 0,
                };
                sub_user_identity(
                    ty,
                    u.positive_response_requested() as u8,
                    &u.primary_field(),
                    &u.secondary_field(),
                )?
            }
            UserVariableItem::Unknown(ty, d) => RSub {
                ty: *ty,
                data: d.clone(),
            },
        });
    }
    Ok(Some(RItem::UserInfo(subs)))
}

/// Reference wire structure of a Pdu value.
pub fn to_ref(p: &Pdu) -> Result<RPdu, String> {
    Ok(match p {
        Pdu::AssociationRQ(a) => {
            let mut items = vec![RItem::AppCtx(latin1(&a.application_context_name))];
            for pc in &a.presentation_contexts {
                let mut subs = vec![RSub {
                    ty: 0x30,
                    data: latin1(&pc.abstract_syntax),
                }];
                for ts in &pc.transfer_syntaxes {
                    subs.push(RSub {
                        ty: 0x40,
                        data: latin1(ts),
                    });
                }
                items.push(RItem::PcProposed { id: pc.id, subs });
            }
            if let Some(u) = uservars_to_ref(&a.user_variables)? {
                items.push(u);
            }
            RPdu::AssocRq(RAssoc {
                version: a.protocol_version,
                called: latin1(&a.called_ae_title),
                calling: latin1(&a.calling_ae_title),
                items,
            })
        }
        Pdu::AssociationAC(a) => {
            let mut items = vec![RItem::AppCtx(latin1(&a.application_context_name))];
            for pc in &a.presentation_contexts {
                items.push(RItem::PcResult {
                    id: pc.id,
                    reason: result_reason_code(&pc.reason),
                    subs: vec![RSub {
                        ty: 0x40,
                        data: latin1(&pc.transfer_syntax),
                    }],
                });
            }
            if let Some(u) = uservars_to_ref(&a.user_variables)? {
                items.push(u);
            }
            RPdu::AssocAc(RAssoc {
                version: a.protocol_version,
                called: latin1(&a.called_ae_title),
                calling: latin1(&a.calling_ae_title),
                items,
            })
        }
        Pdu::AssociationRJ(rj) => {
            let result = match rj.result {
                AssociationRJResult::Permanent => 1,
                AssociationRJResult::Transient => 2,
            };
            let (source, reason) = match &rj.source {
                AssociationRJSource::ServiceUser(r) => (
                    1,
                    match r {
                        AssociationRJServiceUserReason::NoReasonGiven => 1,
                        AssociationRJServiceUserReason::ApplicationContextNameNotSupported => 2,
                        AssociationRJServiceUserReason::CallingAETitleNotRecognized => 3,
                        AssociationRJServiceUserReason::CalledAETitleNotRecognized => 7,
                        AssociationRJServiceUserReason::Reserved(x) => *x,
                    },
                ),
                AssociationRJSource::ServiceProviderASCE(r) => (
                    2,
                    match r {
                        AssociationRJServiceProviderASCEReason::NoReasonGiven => 1,
                        AssociationRJServiceProviderASCEReason::ProtocolVersionNotSupported => 2,
                    },
                ),
                AssociationRJSource::ServiceProviderPresentation(r) => (
                    3,
                    match r {
                        AssociationRJServiceProviderPresentationReason::TemporaryCongestion => 1,
                        AssociationRJServiceProviderPresentationReason::LocalLimitExceeded => 2,
                        AssociationRJServiceProviderPresentationReason::Reserved(x) => *x,
                    },
                ),
            };
            RPdu::AssocRj {
                result,
                source,
                reason,
            }
        }
        Pdu::PData { data } => RPdu::PData(
            data.iter()
                .map(|v| RPdv {
                    ctx: v.presentation_context_id,
                    header: (matches!(v.value_type, PDataValueType::Command) as u8)
                        | ((v.is_last as u8) << 1),
                    data: v.data.clone(),
                })
                .collect(),
        ),
        Pdu::ReleaseRQ => RPdu::ReleaseRq,
        Pdu::ReleaseRP => RPdu::ReleaseRp,
        Pdu::AbortRQ { source } => {
            let (s, r) = match source {
                AbortRQSource::ServiceUser => (0, 0),
                AbortRQSource::Reserved => (1, 0),
                AbortRQSource::ServiceProvider(r) => (
                    2,
                    match r {
                        AbortRQServiceProviderReason::ReasonNotSpecified => 0,
                        AbortRQServiceProviderReason::UnrecognizedPdu => 1,
                        AbortRQServiceProviderReason::UnexpectedPdu => 2,
                        AbortRQServiceProviderReason::Reserved => 3,
                        AbortRQServiceProviderReason::UnrecognizedPduParameter => 4,
                        AbortRQServiceProviderReason::UnexpectedPduParameter => 5,
                        AbortRQServiceProviderReason::InvalidPduParameter => 6,
                    },
                ),
            };
            RPdu::Abort {
                source: s,
                reason: r,
            }
        }
        Pdu::Unknown { pdu_type, data } => RPdu::Unknown {
            ty: *pdu_type,
            data: data.clone(),
        },
    })
}

fn trim_sp(b: &[u8]) -> &[u8] {
    let mut s = 0;
    let mut e = b.len();
    while s < e && b[s] == b' ' {
        s += 1;
    }
    while e > s && b[e - 1] == b' ' {
        e -= 1;
    }
    &b[s..e]
}

/// Structural equality of two reference PDUs where AE titles compare modulo
/// space padding (PS3.8: leading and trailing spaces are not significant).
pub fn ref_eq(a: &RPdu, b: &RPdu) -> bool {
    match (a, b) {
        (RPdu::AssocRq(x), RPdu::AssocRq(y)) | (RPdu::AssocAc(x), RPdu::AssocAc(y)) => {
            x.version == y.version
                && trim_sp(&x.called) == trim_sp(&y.called)
                && trim_sp(&x.calling) == trim_sp(&y.calling)
                && x.items == y.items
        }
        _ => a == b,
    }
}

pub fn short(p: &RPdu) -> String {
    match p {
        RPdu::PData(v) => format!(
            "P-DATA-TF[{}]",
            v.iter()
                .map(|x| format!("ctx{} hdr{} {}B", x.ctx, x.header, x.data.len()))
                .collect::<Vec<_>>()
                .join(",")
        ),
        RPdu::AssocRq(a) | RPdu::AssocAc(a) => format!("{} ({} items)", p.kind(), a.items.len()),
        RPdu::Unknown { ty, data } => format!("UNKNOWN type {:#04x} {}B", ty, data.len()),
        other => format!("{:?}", other),
    }
}
