//! Engine B: many nodes, one process, the libc socket seam.
//!
//! Nodes are real OS threads running unmodified dicom-rs code on real
//! `std::net::TcpStream` / `tokio::net::TcpStream` values whose file
//! descriptors are ends of real socketpairs; every byte they exchange goes
//! through the interposed `recv`/`send` below into virtual queues owned by
//! the simulator. Exactly one thread runs at a time: a baton is handed from
//! the scheduler to a node and comes back at the node's next yield point (an
//! intercepted call). Which node runs, how many in-flight bytes are
//! delivered, how short a send is and where a fault lands are all drawn from
//! the environment tape.

use crate::simio::EnvRef;
use std::cell::Cell;
use std::collections::VecDeque;
use std::sync::atomic::{AtomicBool, AtomicI32, Ordering};
use std::sync::{Condvar, Mutex, OnceLock};

pub const MAX_FD: usize = 8192;
static SIM_FDS: [AtomicBool; MAX_FD] = [const { AtomicBool::new(false) }; MAX_FD];
static ACTIVE: AtomicBool = AtomicBool::new(false);

thread_local! {
    static NODE: Cell<i32> = const { Cell::new(-1) };
}

#[derive(Clone, Copy, Debug, PartialEq, Eq)]
pub enum NodeState {
    Ready,
    BlockedRead(usize),
    BlockedWrite(usize),
    /// async node waiting in epoll_wait
    Parked,
    Finished,
    Exited(i32),
}

pub struct Endpoint {
    pub fd: i32,
    /// the other end of the real socketpair (kept by the simulator for pokes)
    pub poke_fd: i32,
    pub peer: usize,
    pub owner: i32,
    pub rx: VecDeque<u8>,
    pub inflight: VecDeque<u8>,
    /// the peer closed its sending side (EOF follows the in-flight bytes)
    pub peer_fin: bool,
    /// EOF is visible to the reader (FIN delivered)
    pub rx_eof: bool,
    pub closed: bool,
    pub reset: bool,
    pub nonblocking: bool,
    pub rcv_timeout_set: bool,
    pub fire_timeout: bool,
    pub fail_next_send: Option<i32>,
    /// deterministic faults for enumeration: the connection is lost once exactly this many bytes were
    /// accepted from / handed to this endpoint's owner
    pub cut_after_sent: Option<usize>,
    pub cut_after_received: Option<usize>,
    /// every byte this endpoint's owner put on the wire, in order
    pub sent: Vec<u8>,
    /// how many of `sent` bytes were already delivered to the peer
    pub delivered: usize,
    /// global sequence numbers of (send offset) marks for ordering oracles
    pub send_marks: Vec<(u64, usize)>,
    /// bytes the owner received so far (what recv handed out), with marks
    pub received: usize,
    pub recv_marks: Vec<(u64, usize)>,
    pub send_window_block: bool,
    /// an async owner got a short or refused send and waits for a writable edge
    pub want_write_wake: bool,
    pub epfd: i32,
    pub ep_event: Option<libc::epoll_event>,
    pub name: &'static str,
}

pub struct Node {
    pub name: String,
    pub state: NodeState,
    pub is_async: bool,
    pub panicked: Option<String>,
    pub steps: u64,
}

pub struct Net {
    pub eps: Vec<Endpoint>,
    pub nodes: Vec<Node>,
    /// which node holds the baton (-1: the scheduler)
    pub current: i32,
    pub env: Option<EnvRef>,
    pub seq: u64,
    /// address (port) -> endpoint index handed to the next connect()
    pub listen: Vec<(u16, usize)>,
    /// every path a node tried to create
    pub created: Vec<(i32, String)>,
    pub escape_prefix: String,
    pub faults_allowed: bool,
    pub short_sends: bool,
    pub rand_state: u64,
    pub exit_seen: bool,
    /// duplicates of closed simulated descriptors, closed when the run ends
    pub keep_open: Vec<i32>,
}

struct Shared {
    net: Mutex<Option<Net>>,
    cv: Condvar,
}

fn shared() -> &'static Shared {
    static S: OnceLock<Shared> = OnceLock::new();
    S.get_or_init(|| Shared {
        net: Mutex::new(None),
        cv: Condvar::new(),
    })
}

fn lock() -> std::sync::MutexGuard<'static, Option<Net>> {
    shared().net.lock().unwrap_or_else(|p| p.into_inner())
}

fn is_sim(fd: i32) -> bool {
    fd >= 0 && (fd as usize) < MAX_FD && ACTIVE.load(Ordering::Relaxed) && SIM_FDS[fd as usize].load(Ordering::Relaxed)
}

fn set_errno(e: i32) {
    unsafe { *libc::__errno_location() = e };
}

fn ep_of(net: &Net, fd: i32) -> Option<usize> {
    net.eps.iter().position(|e| e.fd == fd && !e.closed)
}

/// hand the baton back to the scheduler and wait to get it again
fn yield_to_scheduler(mut g: std::sync::MutexGuard<'static, Option<Net>>, me: i32) -> std::sync::MutexGuard<'static, Option<Net>> {
    if let Some(net) = g.as_mut() {
        net.current = -1;
    }
    shared().cv.notify_all();
    loop {
        g = shared().cv.wait(g).unwrap_or_else(|p| p.into_inner());
        match g.as_ref() {
            Some(net) if net.current == me => return g,
            None => {
                // the run is over and this thread was abandoned: park for good
                drop(g);
                loop {
                    std::thread::park();
                }
            }
            _ => {}
        }
    }
}

// ------------------------------------------------------------------ real libc

type RecvFn = unsafe extern "C" fn(i32, *mut libc::c_void, usize, i32) -> isize;
type SendFn = unsafe extern "C" fn(i32, *const libc::c_void, usize, i32) -> isize;
type CloseFn = unsafe extern "C" fn(i32) -> i32;
type ShutdownFn = unsafe extern "C" fn(i32, i32) -> i32;
type ConnectFn = unsafe extern "C" fn(i32, *const libc::sockaddr, libc::socklen_t) -> i32;
type ExitFn = unsafe extern "C" fn(i32) -> !;
type GetrandomFn = unsafe extern "C" fn(*mut libc::c_void, usize, u32) -> isize;
type OpenFn = unsafe extern "C" fn(*const libc::c_char, i32, ...) -> i32;
type EpollWaitFn = unsafe extern "C" fn(i32, *mut libc::epoll_event, i32, i32) -> i32;
type EpollCtlFn = unsafe extern "C" fn(i32, i32, i32, *mut libc::epoll_event) -> i32;
type GetpeernameFn = unsafe extern "C" fn(i32, *mut libc::sockaddr, *mut libc::socklen_t) -> i32;

fn real<T: Copy>(name: &'static [u8], slot: &'static OnceLock<usize>) -> T {
    let p = *slot.get_or_init(|| unsafe { libc::dlsym(libc::RTLD_NEXT, name.as_ptr() as *const libc::c_char) as usize });
    assert!(p != 0, "dlsym failed");
    unsafe { std::mem::transmute_copy::<usize, T>(&p) }
}

macro_rules! real_fn {
    ($fname:ident, $ty:ty, $sym:expr) => {
        fn $fname() -> $ty {
            static SLOT: OnceLock<usize> = OnceLock::new();
            real::<$ty>($sym, &SLOT)
        }
    };
}
real_fn!(real_recv, RecvFn, b"recv\0");
real_fn!(real_send, SendFn, b"send\0");
real_fn!(real_close, CloseFn, b"close\0");
real_fn!(real_shutdown, ShutdownFn, b"shutdown\0");
real_fn!(real_connect, ConnectFn, b"connect\0");
real_fn!(real_exit, ExitFn, b"exit\0");
real_fn!(real_getrandom, GetrandomFn, b"getrandom\0");
real_fn!(real_open64, OpenFn, b"open64\0");
real_fn!(real_open, OpenFn, b"open\0");
real_fn!(real_epoll_wait, EpollWaitFn, b"epoll_wait\0");
real_fn!(real_epoll_ctl, EpollCtlFn, b"epoll_ctl\0");
real_fn!(real_getpeername, GetpeernameFn, b"getpeername\0");

// ------------------------------------------------------------------ interposers

fn do_recv(fd: i32, buf: *mut u8, len: usize, peek: bool) -> isize {
    let me = NODE.with(|n| n.get());
    let mut g = lock();
    loop {
        let net = match g.as_mut() {
            Some(n) => n,
            None => {
                set_errno(libc::ECONNRESET);
                return -1;
            }
        };
        let i = match ep_of(net, fd) {
            Some(i) => i,
            None => {
                set_errno(libc::EBADF);
                return -1;
            }
        };
        if net.eps[i].owner < 0 {
            net.eps[i].owner = me;
        }
        if net.eps[i].reset {
            set_errno(libc::ECONNRESET);
            return -1;
        }
        if net.eps[i].fire_timeout {
            net.eps[i].fire_timeout = false;
            set_errno(libc::EAGAIN);
            return -1;
        }
        if !net.eps[i].rx.is_empty() {
            if len == 0 {
                return 0;
            }
            let avail = net.eps[i].rx.len();
            let mut n = avail.min(len);
            // the receive call itself may hand out less than is readable
            if n > 1 {
                if let Some(env) = net.env.clone() {
                    let cut = env.with(|e| {
                        let k = match e.e.weighted(&[6, 1, 1]) {
                            0 => n,
                            1 => 1,
                            _ => 1 + e.e.below(n as u32) as usize,
                        };
                        if k < n {
                            e.obs.fault("short-recv");
                        }
                        k
                    });
                    n = cut;
                }
            }
            if let Some(k) = net.eps[i].cut_after_received {
                let left = k.saturating_sub(net.eps[i].received);
                if left == 0 {
                    let p = net.eps[i].peer;
                    for x in [i, p] {
                        net.eps[x].reset = true;
                        net.eps[x].inflight.clear();
                    }
                    poke(net, p);
                    if let Some(env) = &net.env {
                        env.with(|e| {
                            e.obs.fault("cut-at-received-offset");
                            e.obs.ev("cut-rx", k as u64, i as u64)
                        });
                    }
                    set_errno(libc::ECONNRESET);
                    return -1;
                }
                n = n.min(left);
            }
            let ep = &mut net.eps[i];
            for k in 0..n {
                let b = if peek { ep.rx[k] } else { ep.rx.pop_front().unwrap() };
                unsafe { *buf.add(k) = b };
            }
            if !peek {
                ep.received += n;
                net.seq += 1;
                let s = net.seq;
                let r = net.eps[i].received;
                net.eps[i].recv_marks.push((s, r));
                if let Some(env) = &net.env {
                    env.ev("recv", n as u64, i as u64);
                }
            }
            return n as isize;
        }
        if net.eps[i].rx_eof {
            if let Some(env) = &net.env {
                env.ev("recv-eof", 0, i as u64);
            }
            return 0;
        }
        if net.eps[i].nonblocking || me < 0 {
            set_errno(libc::EAGAIN);
            return -1;
        }
        // blocking read with nothing to read: yield
        net.nodes[me as usize].state = NodeState::BlockedRead(i);
        g = yield_to_scheduler(g, me);
        if let Some(net) = g.as_mut() {
            net.nodes[me as usize].state = NodeState::Ready;
        }
    }
}

fn do_send(fd: i32, buf: *const u8, len: usize) -> isize {
    let me = NODE.with(|n| n.get());
    let mut g = lock();
    loop {
        let net = match g.as_mut() {
            Some(n) => n,
            None => {
                set_errno(libc::EPIPE);
                return -1;
            }
        };
        let i = match ep_of(net, fd) {
            Some(i) => i,
            None => {
                set_errno(libc::EBADF);
                return -1;
            }
        };
        let peer = net.eps[i].peer;
        if net.eps[i].owner < 0 {
            net.eps[i].owner = me;
        }
        if net.eps[i].reset || net.eps[peer].closed && net.eps[peer].reset {
            set_errno(libc::EPIPE);
            return -1;
        }
        if let Some(e) = net.eps[i].fail_next_send.take() {
            if let Some(env) = &net.env {
                env.with(|x| {
                    x.obs.fault("send-error");
                    x.obs.ev("send-err", e as u64, i as u64)
                });
            }
            // a failed send means the connection is gone
            net.eps[i].reset = true;
            net.eps[peer].reset = true;
            set_errno(e);
            return -1;
        }
        if len == 0 {
            return 0;
        }
        if net.eps[i].send_window_block {
            // the virtual send buffer is full
            if net.eps[i].nonblocking || me < 0 {
                set_errno(libc::EAGAIN);
                return -1;
            }
            net.nodes[me as usize].state = NodeState::BlockedWrite(i);
            g = yield_to_scheduler(g, me);
            if let Some(net) = g.as_mut() {
                net.nodes[me as usize].state = NodeState::Ready;
            }
            continue;
        }
        let mut n = len;
        if net.short_sends && n > 1 {
            if let Some(env) = net.env.clone() {
                n = env.with(|e| {
                    let k = match e.e.weighted(&[6, 1, 1, 1]) {
                        0 => n,
                        1 => 1,
                        2 => n - 1,
                        _ => 1 + e.e.below(n as u32) as usize,
                    };
                    if k < n {
                        e.obs.fault("short-send");
                    }
                    k
                });
            }
        }
        if let Some(k) = net.eps[i].cut_after_sent {
            let left = k.saturating_sub(net.eps[i].sent.len());
            if left == 0 {
                for x in [i, peer] {
                    net.eps[x].reset = true;
                    net.eps[x].inflight.clear();
                }
                poke(net, peer);
                if let Some(env) = &net.env {
                    env.with(|e| {
                        e.obs.fault("cut-at-sent-offset");
                        e.obs.ev("cut-tx", k as u64, i as u64)
                    });
                }
                set_errno(libc::EPIPE);
                return -1;
            }
            n = n.min(left);
        }
        if n < len && net.eps[i].nonblocking {
            net.eps[i].want_write_wake = true;
        }
        let slice = unsafe { std::slice::from_raw_parts(buf, n) };
        net.eps[peer].inflight.extend(slice.iter().cloned());
        net.eps[i].sent.extend_from_slice(slice);
        net.seq += 1;
        let s = net.seq;
        let total = net.eps[i].sent.len();
        net.eps[i].send_marks.push((s, total));
        if let Some(env) = &net.env {
            env.ev("send", n as u64, i as u64);
        }
        // every send is a yield point, so that the peer may run in between
        if me >= 0 && !net.nodes[me as usize].is_async {
            net.nodes[me as usize].state = NodeState::Ready;
            g = yield_to_scheduler(g, me);
        }
        drop(g);
        return n as isize;
    }
}

#[no_mangle]
pub unsafe extern "C" fn recv(fd: i32, buf: *mut libc::c_void, len: usize, flags: i32) -> isize {
    if !is_sim(fd) {
        return unsafe { real_recv()(fd, buf, len, flags) };
    }
    do_recv(fd, buf as *mut u8, len, flags & libc::MSG_PEEK != 0)
}

#[no_mangle]
pub unsafe extern "C" fn send(fd: i32, buf: *const libc::c_void, len: usize, flags: i32) -> isize {
    if !is_sim(fd) {
        return unsafe { real_send()(fd, buf, len, flags) };
    }
    do_send(fd, buf as *const u8, len)
}

fn mark_closed(fd: i32, how_write_only: bool) {
    let mut g = lock();
    if let Some(net) = g.as_mut() {
        if let Some(i) = ep_of(net, fd) {
            let peer = net.eps[i].peer;
            net.eps[peer].peer_fin = true;
            net.seq += 1;
            if let Some(env) = &net.env {
                env.ev(if how_write_only { "shutdown" } else { "close" }, i as u64, 0);
            }
            if !how_write_only {
                // unread data at close time: the peer will see a reset after what is in flight (TCP RST) - kept simple: EOF
                net.eps[i].closed = true;
                net.eps[i].rx.clear();
            }
        }
    }
}

#[no_mangle]
pub unsafe extern "C" fn shutdown(fd: i32, how: i32) -> i32 {
    if is_sim(fd) {
        // as Linux does: a connection that was reset is no longer connected, shutdown(2) says ENOTCONN
        let was_reset = {
            let g = lock();
            g.as_ref().and_then(|net| ep_of(net, fd).map(|i| net.eps[i].reset)).unwrap_or(false)
        };
        mark_closed(fd, true);
        let _ = how;
        if was_reset {
            set_errno(libc::ENOTCONN);
            return -1;
        }
        return 0;
    }
    unsafe { real_shutdown()(fd, how) }
}

#[no_mangle]
pub unsafe extern "C" fn close(fd: i32) -> i32 {
    if is_sim(fd) {
        // keep the real socket alive (through a duplicate) until the run ends: a real hang-up would
        // reach the peer's event loop before the simulated end of stream does
        mark_closed(fd, false);
        SIM_FDS[fd as usize].store(false, Ordering::Relaxed);
    }
    crate::simdisk::note_close(fd);
    unsafe { real_close()(fd) }
}

#[no_mangle]
pub unsafe extern "C" fn connect(fd: i32, addr: *const libc::sockaddr, len: libc::socklen_t) -> i32 {
    if ACTIVE.load(Ordering::Relaxed) && !addr.is_null() && unsafe { (*addr).sa_family } as i32 == libc::AF_INET {
        let a = unsafe { &*(addr as *const libc::sockaddr_in) };
        let port = u16::from_be(a.sin_port);
        let ip = u32::from_be(a.sin_addr.s_addr);
        if ip >> 24 == 10 {
            let me = NODE.with(|n| n.get());
            let mut g = lock();
            if let Some(net) = g.as_mut() {
                if let Some(pos) = net.listen.iter().position(|(p, _)| *p == port) {
                    let (_, epi) = net.listen.remove(pos);
                    // the client's descriptor becomes the pre-made socketpair end
                    let old = net.eps[epi].fd;
                    let flags = unsafe { libc::fcntl(fd, libc::F_GETFL) };
                    unsafe { libc::dup2(old, fd) };
                    unsafe { libc::fcntl(fd, libc::F_SETFL, flags) };
                    SIM_FDS[old as usize].store(false, Ordering::Relaxed);
                    unsafe { real_close()(old) };
                    net.eps[epi].fd = fd;
                    net.eps[epi].owner = me;
                    net.eps[epi].nonblocking = flags & libc::O_NONBLOCK != 0;
                    SIM_FDS[fd as usize].store(true, Ordering::Relaxed);
                    if let Some(env) = &net.env {
                        env.ev("connect", port as u64, epi as u64);
                    }
                    return 0;
                }
                set_errno(libc::ECONNREFUSED);
                return -1;
            }
        }
    }
    unsafe { real_connect()(fd, addr, len) }
}

#[no_mangle]
pub unsafe extern "C" fn getpeername(fd: i32, addr: *mut libc::sockaddr, len: *mut libc::socklen_t) -> i32 {
    if is_sim(fd) && !addr.is_null() && !len.is_null() && unsafe { *len } as usize >= std::mem::size_of::<libc::sockaddr_in>() {
        let a = unsafe { &mut *(addr as *mut libc::sockaddr_in) };
        a.sin_family = libc::AF_INET as u16;
        a.sin_port = 104u16.to_be();
        a.sin_addr.s_addr = u32::from_be_bytes([10, 9, 8, 7]).to_be();
        unsafe { *len = std::mem::size_of::<libc::sockaddr_in>() as u32 };
        return 0;
    }
    unsafe { real_getpeername()(fd, addr, len) }
}

#[no_mangle]
pub unsafe extern "C" fn exit(code: i32) -> ! {
    let me = NODE.with(|n| n.get());
    if me >= 0 && ACTIVE.load(Ordering::Relaxed) {
        let mut g = lock();
        if let Some(net) = g.as_mut() {
            net.nodes[me as usize].state = NodeState::Exited(code);
            net.exit_seen = true;
            if let Some(env) = &net.env {
                env.ev("exit", code as u32 as u64, me as u64);
            }
            // every descriptor of a process that exits is closed
            for e in 0..net.eps.len() {
                if net.eps[e].owner == me && !net.eps[e].closed {
                    let p = net.eps[e].peer;
                    net.eps[p].peer_fin = true;
                    net.eps[e].closed = true;
                }
            }
            net.current = -1;
        }
        shared().cv.notify_all();
        drop(g);
        loop {
            std::thread::park();
        }
    }
    unsafe { real_exit()(code) }
}

#[no_mangle]
pub unsafe extern "C" fn getrandom(buf: *mut libc::c_void, len: usize, flags: u32) -> isize {
    if ACTIVE.load(Ordering::Relaxed) && NODE.with(|n| n.get()) >= 0 {
        let mut g = lock();
        if let Some(net) = g.as_mut() {
            let p = buf as *mut u8;
            for k in 0..len {
                let x = simcore::splitmix64(&mut net.rand_state);
                unsafe { *p.add(k) = x as u8 };
            }
            return len as isize;
        }
    }
    unsafe { real_getrandom()(buf, len, flags) }
}

fn note_create(path: *const libc::c_char, flags: i32) -> bool {
    // returns false when the path must be refused
    if !ACTIVE.load(Ordering::Relaxed) || path.is_null() {
        return true;
    }
    let me = NODE.with(|n| n.get());
    if me < 0 || flags & libc::O_CREAT == 0 {
        return true;
    }
    let s = unsafe { std::ffi::CStr::from_ptr(path) }.to_string_lossy().to_string();
    let mut g = lock();
    if let Some(net) = g.as_mut() {
        net.created.push((me, s.clone()));
        if !net.escape_prefix.is_empty() && s.starts_with(&net.escape_prefix) {
            return false;
        }
    }
    true
}

#[no_mangle]
pub unsafe extern "C" fn open64(path: *const libc::c_char, flags: i32, mode: libc::mode_t) -> i32 {
    if !note_create(path, flags) {
        set_errno(libc::EACCES);
        return -1;
    }
    let fd = unsafe { real_open64()(path, flags, mode) };
    if crate::simdisk::armed() && fd >= 0 && !path.is_null() {
        crate::simdisk::note_open(fd, &unsafe { std::ffi::CStr::from_ptr(path) }.to_string_lossy(), flags);
    }
    fd
}

#[no_mangle]
pub unsafe extern "C" fn open(path: *const libc::c_char, flags: i32, mode: libc::mode_t) -> i32 {
    if !note_create(path, flags) {
        set_errno(libc::EACCES);
        return -1;
    }
    let fd = unsafe { real_open()(path, flags, mode) };
    if crate::simdisk::armed() && fd >= 0 && !path.is_null() {
        crate::simdisk::note_open(fd, &unsafe { std::ffi::CStr::from_ptr(path) }.to_string_lossy(), flags);
    }
    fd
}

#[no_mangle]
pub unsafe extern "C" fn epoll_ctl(epfd: i32, op: i32, fd: i32, ev: *mut libc::epoll_event) -> i32 {
    if is_sim(fd) && !ev.is_null() {
        let mut g = lock();
        if let Some(net) = g.as_mut() {
            if let Some(i) = ep_of(net, fd) {
                net.eps[i].epfd = epfd;
                net.eps[i].ep_event = Some(unsafe { *ev });
                net.eps[i].nonblocking = true;
                let me = NODE.with(|n| n.get());
                if net.eps[i].owner < 0 {
                    net.eps[i].owner = me;
                }
            }
        }
    }
    unsafe { real_epoll_ctl()(epfd, op, fd, ev) }
}

#[no_mangle]
pub unsafe extern "C" fn epoll_wait(epfd: i32, events: *mut libc::epoll_event, max: i32, timeout: i32) -> i32 {
    let me = NODE.with(|n| n.get());
    if me < 0 || !ACTIVE.load(Ordering::Relaxed) {
        return unsafe { real_epoll_wait()(epfd, events, max, timeout) };
    }
    loop {
        let n = unsafe { real_epoll_wait()(epfd, events, max, 0) };
        if n != 0 || timeout == 0 {
            return n;
        }
        // nothing ready: this is the async node's yield point
        let mut g = lock();
        match g.as_mut() {
            Some(net) => net.nodes[me as usize].state = NodeState::Parked,
            None => return 0,
        }
        g = yield_to_scheduler(g, me);
        if let Some(net) = g.as_mut() {
            net.nodes[me as usize].state = NodeState::Ready;
        }
    }
}

// ------------------------------------------------------------------ harness API

pub struct Conn {
    /// endpoint indices: a = acceptor side, b = requestor side
    pub a: usize,
    pub b: usize,
}

/// start a simulated network for one run
pub fn begin(env: &EnvRef, seed: u64) {
    let mut g = lock();
    *g = Some(Net {
        eps: Vec::new(),
        nodes: Vec::new(),
        current: -1,
        env: Some(env.clone()),
        seq: 0,
        listen: Vec::new(),
        created: Vec::new(),
        escape_prefix: String::new(),
        faults_allowed: false,
        short_sends: true,
        rand_state: seed ^ 0x5DEECE66D,
        exit_seen: false,
        keep_open: Vec::new(),
    });
    ACTIVE.store(true, Ordering::SeqCst);
}

pub fn with_net<R>(f: impl FnOnce(&mut Net) -> R) -> R {
    let mut g = lock();
    f(g.as_mut().expect("simnet not active"))
}

/// a new connection: returns the acceptor-side descriptor; the requestor side
/// is obtained either through `take_fd(conn.b)` or by `connect()` to
/// `10.0.0.1:port` when `port` is given
pub fn connection(port: Option<u16>) -> Conn {
    let mut fds = [0i32; 2];
    let r = unsafe { libc::socketpair(libc::AF_UNIX, libc::SOCK_STREAM | libc::SOCK_CLOEXEC, 0, fds.as_mut_ptr()) };
    assert!(r == 0, "socketpair failed");
    assert!((fds[0] as usize) < MAX_FD && (fds[1] as usize) < MAX_FD);
    let mut g = lock();
    let net = g.as_mut().expect("simnet not active");
    let a = net.eps.len();
    let b = a + 1;
    // duplicates owned by the simulator: writing to poke_fd makes the endpoint's descriptor readable,
    // and they keep both ends of the real socket open when a node closes its descriptor
    let pokes = [unsafe { libc::dup(fds[1]) }, unsafe { libc::dup(fds[0]) }];
    for (k, fd) in fds.iter().enumerate() {
        net.eps.push(Endpoint {
            fd: *fd,
            poke_fd: pokes[k],
            peer: if k == 0 { b } else { a },
            owner: -1,
            rx: VecDeque::new(),
            inflight: VecDeque::new(),
            peer_fin: false,
            rx_eof: false,
            closed: false,
            reset: false,
            nonblocking: false,
            rcv_timeout_set: false,
            fire_timeout: false,
            fail_next_send: None,
            cut_after_sent: None,
            cut_after_received: None,
            sent: Vec::new(),
            delivered: 0,
            send_marks: Vec::new(),
            received: 0,
            recv_marks: Vec::new(),
            send_window_block: false,
            want_write_wake: false,
            epfd: -1,
            ep_event: None,
            name: if k == 0 { "acceptor" } else { "requestor" },
        });
        SIM_FDS[*fd as usize].store(true, Ordering::SeqCst);
    }
    if let Some(p) = port {
        net.listen.push((p, b));
    }
    Conn { a, b }
}

pub fn fd_of(ep: usize) -> i32 {
    with_net(|n| n.eps[ep].fd)
}

/// Register a node; returns its id. The closure runs on a fresh thread when
/// the scheduler first gives it the baton.
pub fn spawn_node(name: &str, is_async: bool, f: impl FnOnce() + Send + 'static) -> i32 {
    let id = with_net(|n| {
        n.nodes.push(Node {
            name: name.to_string(),
            state: NodeState::Ready,
            is_async,
            panicked: None,
            steps: 0,
        });
        (n.nodes.len() - 1) as i32
    });
    std::thread::Builder::new()
        .name(format!("node-{}", name))
        .stack_size(4 << 20)
        .spawn(move || {
            NODE.with(|n| n.set(id));
            // wait for the baton
            {
                let mut g = lock();
                loop {
                    match g.as_ref() {
                        Some(net) if net.current == id => break,
                        None => return,
                        _ => {}
                    }
                    g = shared().cv.wait(g).unwrap_or_else(|p| p.into_inner());
                }
            }
            let r = std::panic::catch_unwind(std::panic::AssertUnwindSafe(f));
            let mut g = lock();
            if let Some(net) = g.as_mut() {
                if let Err(p) = r {
                    let msg = if let Some(s) = p.downcast_ref::<&str>() {
                        s.to_string()
                    } else if let Some(s) = p.downcast_ref::<String>() {
                        s.clone()
                    } else {
                        "panic".to_string()
                    };
                    net.nodes[id as usize].panicked = Some(msg);
                }
                net.nodes[id as usize].state = NodeState::Finished;
                net.current = -1;
            }
            shared().cv.notify_all();
        })
        .expect("spawn node thread");
    id
}

fn poke(net: &mut Net, ep: usize) {
    // Wake an async node: its real descriptor must show a readiness edge. Drain
    // old poke bytes, write a fresh one through the other end of the real
    // socketpair (readable edge) and re-arm the epoll registration (writable edge).
    let fd = net.eps[ep].fd;
    let peer_fd = net.eps[ep].poke_fd;
    if net.eps[ep].closed || net.eps[ep].epfd < 0 || peer_fd < 0 {
        return;
    }
    let mut scratch = [0u8; 256];
    loop {
        let r = unsafe { real_recv()(fd, scratch.as_mut_ptr() as *mut libc::c_void, scratch.len(), libc::MSG_DONTWAIT) };
        if r <= 0 {
            break;
        }
    }
    let one = [1u8];
    unsafe { real_send()(peer_fd, one.as_ptr() as *const libc::c_void, 1, libc::MSG_DONTWAIT | libc::MSG_NOSIGNAL) };
    if let Some(mut ev) = net.eps[ep].ep_event {
        unsafe { real_epoll_ctl()(net.eps[ep].epfd, libc::EPOLL_CTL_MOD, fd, &mut ev) };
    }
}

#[derive(Clone, Copy, Debug)]
enum Action {
    Run(usize),
    Deliver(usize),
    Fin(usize),
    Cut(usize),
    Timeout(usize),
    SendFail(usize),
}

pub struct RunReport {
    pub steps: u64,
    pub finished: bool,
    pub stuck: Vec<String>,
    pub quiesced: bool,
    pub step_cap_hit: bool,
}

/// Run the scheduler until every node finished/exited, or the step cap.
pub fn run(max_steps: u64) -> RunReport {
    let env = with_net(|n| n.env.clone().unwrap());
    let mut steps = 0u64;
    let mut quiesced = false;
    let mut fault_budget = with_net(|n| if n.faults_allowed { 1 + env.with(|e| e.e.below(2)) } else { 0 });
    let mut forced_close_steps: Option<u64> = None;
    loop {
        steps += 1;
        let mut g = lock();
        let net = g.as_mut().expect("net");
        // enabled actions
        let mut acts: Vec<Action> = Vec::new();
        for (i, nd) in net.nodes.iter().enumerate() {
            let runnable = match nd.state {
                NodeState::Ready => true,
                NodeState::BlockedRead(e) => !net.eps[e].rx.is_empty() || net.eps[e].rx_eof || net.eps[e].reset || net.eps[e].fire_timeout,
                NodeState::BlockedWrite(e) => !net.eps[e].send_window_block || net.eps[e].reset,
                NodeState::Parked => net.eps.iter().any(|e| e.owner == i as i32 && !e.closed && (!e.rx.is_empty() || e.rx_eof || e.reset || e.want_write_wake)),
                NodeState::Finished | NodeState::Exited(_) => false,
            };
            if runnable {
                acts.push(Action::Run(i));
            }
        }
        for (i, e) in net.eps.iter().enumerate() {
            if !e.inflight.is_empty() && !e.closed {
                acts.push(Action::Deliver(i));
            } else if e.inflight.is_empty() && e.peer_fin && !e.rx_eof && !e.closed {
                acts.push(Action::Fin(i));
            }
        }
        let all_done = net.nodes.iter().all(|n| matches!(n.state, NodeState::Finished | NodeState::Exited(_)));
        if all_done {
            return RunReport {
                steps,
                finished: true,
                stuck: vec![],
                quiesced,
                step_cap_hit: false,
            };
        }
        if steps > max_steps || forced_close_steps.map(|s| steps > s + 600).unwrap_or(false) {
            let stuck = net.nodes.iter().filter(|n| !matches!(n.state, NodeState::Finished | NodeState::Exited(_))).map(|n| format!("{} ({:?})", n.name, n.state)).collect();
            return RunReport {
                steps,
                finished: false,
                stuck,
                quiesced,
                step_cap_hit: steps > max_steps,
            };
        }
        if acts.is_empty() {
            // quiescence: every node is blocked and nothing is in flight -> the peer "goes away"
            quiesced = true;
            env.with(|e| e.obs.ev("quiescence-close", steps, 0));
            let desc = format!("quiescence: nodes {:?}; endpoints {:?}", net.nodes.iter().map(|n| format!("{}={:?}", n.name, n.state)).collect::<Vec<_>>(), net.eps.iter().map(|e| format!("rx{} infl{} fin{} eof{} closed{}", e.rx.len(), e.inflight.len(), e.peer_fin, e.rx_eof, e.closed)).collect::<Vec<_>>());
            env.with(|e| e.obs.note_with(|| desc));
            for e in net.eps.iter_mut() {
                if !e.closed {
                    e.peer_fin = true;
                    e.rx_eof = true;
                    if forced_close_steps.is_some() {
                        e.reset = true;
                    }
                }
            }
            if forced_close_steps.is_none() {
                forced_close_steps = Some(steps);
            }
            for e in 0..net.eps.len() {
                poke(net, e);
            }
            // async nodes parked with nothing to read need a kick too
            for nd in net.nodes.iter_mut() {
                if nd.state == NodeState::Parked {
                    nd.state = NodeState::Ready;
                }
            }
            continue;
        }
        // fault actions (only while they can still matter)
        if fault_budget > 0 && net.faults_allowed {
            for (i, e) in net.eps.iter().enumerate() {
                if e.closed || e.reset {
                    continue;
                }
                if i % 2 == 0 {
                    acts.push(Action::Cut(i));
                }
                acts.push(Action::SendFail(i));
                if e.rcv_timeout_set && net.nodes.iter().any(|n| n.state == NodeState::BlockedRead(i)) {
                    acts.push(Action::Timeout(i));
                }
            }
        }
        // choose: index 0 (tape value 0) is the most benign enabled action
        let n_benign = acts.iter().filter(|a| matches!(a, Action::Run(_) | Action::Deliver(_) | Action::Fin(_))).count();
        let pick = env.with(|e| {
            let fault = acts.len() > n_benign && e.e.chance(1, 24);
            if fault {
                n_benign + e.e.below((acts.len() - n_benign) as u32) as usize
            } else {
                e.e.below(n_benign as u32) as usize
            }
        });
        let act = acts[pick];
        match act {
            Action::Run(i) => {
                net.nodes[i].steps += 1;
                if net.nodes[i].state == NodeState::Parked {
                    for e in 0..net.eps.len() {
                        if net.eps[e].owner == i as i32 {
                            net.eps[e].want_write_wake = false;
                            poke(net, e);
                        }
                    }
                }
                net.current = i as i32;
                env.with(|e| e.obs.ev("run", i as u64, 0));
                shared().cv.notify_all();
                // wait for the baton to come back
                loop {
                    g = shared().cv.wait(g).unwrap_or_else(|p| p.into_inner());
                    if g.as_ref().map(|n| n.current == -1).unwrap_or(true) {
                        break;
                    }
                }
            }
            Action::Deliver(i) => {
                let avail = net.eps[i].inflight.len();
                let k = env.with(|e| {
                    let k = match e.e.weighted(&[5, 2, 1, 2]) {
                        0 => avail,
                        1 => 1,
                        2 => avail - 1,
                        _ => 1 + e.e.below(avail as u32) as usize,
                    }
                    .max(1)
                    .min(avail);
                    if k < avail {
                        e.obs.fault("partial-delivery");
                    }
                    e.obs.ev("deliver", k as u64, i as u64);
                    k
                });
                for _ in 0..k {
                    let b = net.eps[i].inflight.pop_front().unwrap();
                    net.eps[i].rx.push_back(b);
                }
                let p = net.eps[i].peer;
                net.eps[p].delivered += k;
                net.seq += 1;
                poke(net, i);
            }
            Action::Fin(i) => {
                net.eps[i].rx_eof = true;
                env.with(|e| e.obs.ev("deliver-fin", i as u64, 0));
                poke(net, i);
            }
            Action::Cut(i) => {
                fault_budget -= 1;
                let p = net.eps[i].peer;
                env.with(|e| {
                    e.obs.fault("connection-cut");
                    e.obs.ev("cut", i as u64, 0)
                });
                for x in [i, p] {
                    net.eps[x].reset = true;
                    net.eps[x].inflight.clear();
                    poke(net, x);
                }
            }
            Action::Timeout(i) => {
                fault_budget -= 1;
                net.eps[i].fire_timeout = true;
                env.with(|e| {
                    e.obs.fault("read-timeout");
                    e.obs.ev("timeout", i as u64, 0)
                });
            }
            Action::SendFail(i) => {
                fault_budget -= 1;
                let errno = [libc::EPIPE, libc::ECONNRESET, libc::ETIMEDOUT][env.with(|e| e.e.below(3)) as usize];
                net.eps[i].fail_next_send = Some(errno);
                env.with(|e| {
                    e.obs.fault("send-failure-armed");
                    e.obs.ev("arm-send-fail", i as u64, errno as u64)
                });
            }
        }
    }
}

/// Finish the run: take the network apart. Threads still blocked are
/// abandoned (they park forever); the caller learns whether the process must
/// be restarted before the next run.
pub struct EndState {
    pub eps: Vec<Endpoint>,
    pub nodes: Vec<Node>,
    pub created: Vec<(i32, String)>,
    pub needs_restart: bool,
}

pub fn end() -> EndState {
    let mut g = lock();
    let net = g.take().expect("net");
    ACTIVE.store(false, Ordering::SeqCst);
    let leaked = net.nodes.iter().any(|n| !matches!(n.state, NodeState::Finished));
    // close descriptors that are still open on our side
    for e in &net.eps {
        if (e.fd as usize) < MAX_FD && SIM_FDS[e.fd as usize].swap(false, Ordering::SeqCst) {
            unsafe { real_close()(e.fd) };
        }
    }
    for fd in &net.keep_open {
        unsafe { real_close()(*fd) };
    }
    for e in &net.eps {
        if e.poke_fd >= 0 {
            unsafe { real_close()(e.poke_fd) };
        }
    }
    shared().cv.notify_all();
    // the bytes on the wire are part of the run's identity (replay / determinism comparison)
    if let Some(env) = &net.env {
        for (i, e) in net.eps.iter().enumerate() {
            let h = simcore::fnv1a(&e.sent);
            env.with(|x| x.obs.ev("wire", i as u64, h));
        }
    }
    EndState {
        needs_restart: leaked || net.exit_seen,
        eps: net.eps,
        nodes: net.nodes,
        created: net.created,
    }
}

static RESTART: AtomicI32 = AtomicI32::new(0);
pub fn request_restart() {
    RESTART.store(1, Ordering::SeqCst);
}
pub fn restart_requested() -> bool {
    RESTART.load(Ordering::SeqCst) != 0
}
