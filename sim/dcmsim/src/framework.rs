//! Check registry, worker loop, supervisor, shrinking, replay, evidence.

use crate::simio::EnvRef;
use serde_json::{json, Value};
use simcore::{mix, Obs, RunResult, Tape, Violation};
use std::collections::{BTreeMap, HashSet};
use std::io::{BufRead, BufReader, Write};
use std::panic::{catch_unwind, AssertUnwindSafe};
use std::process::{Command, Stdio};
use std::time::Instant;

pub const DEFAULT_SEED: u64 = 20260921;

pub struct CheckDef {
    pub id: &'static str,
    /// "exploration" | "fault_enumeration"
    pub level: &'static str,
    /// sub-configurations; a run's configuration is `run % configs.len()`
    pub configs: &'static [&'static str],
    pub quick_runs: u64,
    pub thorough_runs: u64,
    pub run: fn(cfg: usize, w: &mut Tape, env: &EnvRef) -> RunResult,
    pub rule: &'static str,
    pub real: &'static [&'static str],
    pub stub: &'static [&'static str],
    pub assumptions: &'static [&'static str],
    /// probes that must be non-zero in a thorough run (reach self-check)
    pub required_probes: &'static [&'static str],
    /// true: runs inside the multi-node network simulator (needs re-exec etc.)
    pub net: bool,
}

pub fn registry() -> Vec<CheckDef> {
    let mut v = Vec::new();
    crate::checks::register(&mut v);
    v
}

pub fn find(id: &str) -> Option<CheckDef> {
    registry().into_iter().find(|c| c.id == id)
}

// ------------------------------------------------------------------ one run

pub struct RunOutcome {
    pub result: RunResult,
    pub obs: Obs,
    pub wtape: Vec<u32>,
    pub etape: Vec<u32>,
}

thread_local! {
    static PANIC_LOC: std::cell::RefCell<Option<String>> = const { std::cell::RefCell::new(None) };
}

pub fn install_panic_hook() {
    std::panic::set_hook(Box::new(|info| {
        let loc = info
            .location()
            .map(|l| format!("{}:{}", l.file(), l.line()))
            .unwrap_or_else(|| "?".into());
        let msg = if let Some(s) = info.payload().downcast_ref::<&str>() {
            s.to_string()
        } else if let Some(s) = info.payload().downcast_ref::<String>() {
            s.clone()
        } else {
            "<non-string panic>".into()
        };
        // a panic raised inside std or a dependency: attribute it to the innermost dicom-rs frame
        let mut loc = loc;
        let mut msg = msg;
        if !loc.contains("/verif/") {
            // call path through dicom-rs, for triage
            let bt = std::backtrace::Backtrace::force_capture().to_string();
            let mut path = Vec::new();
            for line in bt.lines() {
                let l = line.trim();
                if let Some(rest) = l.strip_prefix("at /repo/") {
                    let mut parts = rest.rsplitn(2, ':');
                    let _ = parts.next();
                    if let Some(p) = parts.next() {
                        if path.last() != Some(&p.to_string()) {
                            path.push(p.to_string());
                        }
                    }
                    if path.len() >= 6 {
                        break;
                    }
                }
            }
            if !path.is_empty() {
                msg = format!("{} [call path: {}]", msg, path.join(" <- "));
            }
        }
        if !loc.contains("/repo/") && !loc.contains("/verif/") {
            let bt = std::backtrace::Backtrace::force_capture().to_string();
            let mut via = None;
            for line in bt.lines() {
                let l = line.trim();
                if let Some(rest) = l.strip_prefix("at ") {
                    if rest.starts_with("/repo/") {
                        // "at /repo/x/y.rs:LINE:COL"
                        let mut parts = rest.rsplitn(2, ':');
                        let _col = parts.next();
                        via = parts.next().map(|s| s.to_string());
                        break;
                    }
                    if rest.starts_with("/verif/") {
                        break;
                    }
                }
            }
            if let Some(v) = via {
                let short = loc.rsplit("/library/").next().unwrap_or(&loc).to_string();
                loc = format!("{} (via {})", v, short);
            }
        }
        PANIC_LOC.with(|p| *p.borrow_mut() = Some(format!("{}|{}", loc, msg)));
    }));
}

fn seeds(def: &CheckDef, seed: u64, run: u64) -> (u64, u64) {
    let base = mix(seed, simcore::hash_str(def.id));
    (mix(base, run * 2), mix(base, run * 2 + 1))
}

pub fn cfg_of(def: &CheckDef, run: u64) -> usize {
    (run % def.configs.len() as u64) as usize
}

pub fn execute(def: &CheckDef, cfg: usize, mut w: Tape, e: Tape, keep_trace: bool) -> RunOutcome {
    let env = EnvRef::new(e, Obs::new(keep_trace));
    PANIC_LOC.with(|p| *p.borrow_mut() = None);
    let r = catch_unwind(AssertUnwindSafe(|| (def.run)(cfg, &mut w, &env)));
    let result = match r {
        Ok(r) => r,
        Err(_) => {
            let info = PANIC_LOC.with(|p| p.borrow_mut().take()).unwrap_or_default();
            let (loc, msg) = info.split_once('|').unwrap_or((&info, ""));
            // harness bugs must not masquerade as violations
            if loc.contains("/verif/") || loc.starts_with("dcmsim/") || loc.starts_with("dcmref/") || loc.starts_with("simcore/") {
                Err(Violation::new(
                    "harness-panic",
                    format!("HARNESS-PANIC@{}", loc),
                    format!("harness panicked at {}: {}", loc, msg),
                ))
            } else {
                Err(Violation::new(
                    "no-panic",
                    format!("panic@{}", strip_repo(loc)),
                    format!("panicked at {}: {}", loc, msg),
                ))
            }
        }
    };
    let wtape = w.consumed();
    let (e, obs) = env.finish();
    RunOutcome {
        result,
        obs,
        wtape,
        etape: e.consumed(),
    }
}

fn strip_repo(loc: &str) -> String {
    loc.replace("/repo/", "")
}

pub fn execute_seeded(def: &CheckDef, seed: u64, run: u64, keep_trace: bool) -> RunOutcome {
    let (ws, es) = seeds(def, seed, run);
    execute(def, cfg_of(def, run), Tape::generate(ws), Tape::generate(es), keep_trace)
}

// ------------------------------------------------------------------ worker

static CUR_RUN: std::sync::atomic::AtomicU64 = std::sync::atomic::AtomicU64::new(u64::MAX);

/// Executes runs `start, start+step, ...` below `end`; prints JSON lines.
pub fn worker(id: &str, seed: u64, start: u64, step: u64, end: u64) -> i32 {
    let def = match find(id) {
        Some(d) => d,
        None => {
            eprintln!("unknown check {}", id);
            return 2;
        }
    };
    install_panic_hook();
    let out = std::io::stdout();
    let mut runs = 0u64;
    let mut steps = 0u64;
    let mut nontrivial = 0u64;
    let mut hash_acc = 0u64;
    let mut faults: BTreeMap<String, u64> = BTreeMap::new();
    let mut probes: BTreeMap<String, u64> = BTreeMap::new();
    let mut per_cfg: BTreeMap<String, u64> = BTreeMap::new();
    let mut sigs: HashSet<u64> = HashSet::new();
    let mut viol: BTreeMap<String, Value> = BTreeMap::new();
    let mut samples: Vec<Value> = Vec::new();
    let mut run = start;
    let mut since_progress = 0u64;
    let verbose = std::env::var("VERIF_VERBOSE").is_ok();
    if let Some(cpu) = std::env::var("VERIF_CPU_LIMIT_S").ok().and_then(|s| s.parse::<u64>().ok()) {
        let lim = libc::rlimit { rlim_cur: cpu, rlim_max: cpu + 5 };
        unsafe { libc::setrlimit(libc::RLIMIT_CPU, &lim) };
    }
    // wall-clock watchdog (outside the simulation): a run that does not
    // finish within the limit is reported as a hang and the process leaves
    let limit_s: u64 = std::env::var("VERIF_HANG_S").ok().and_then(|s| s.parse().ok()).unwrap_or(if def.id == "C05" { 90 } else { 30 });
    std::thread::spawn(move || {
        let mut last = u64::MAX;
        let mut since = Instant::now();
        loop {
            std::thread::sleep(std::time::Duration::from_millis(500));
            let cur = CUR_RUN.load(std::sync::atomic::Ordering::SeqCst);
            if cur != last {
                last = cur;
                since = Instant::now();
            } else if cur != u64::MAX && since.elapsed().as_secs() >= limit_s {
                println!("{}", json!({"hang": cur}));
                let _ = std::io::stdout().flush();
                crate::leave(3)
            }
        }
    });
    let curfile = std::env::var("VERIF_CURFILE").ok().and_then(|p| std::fs::OpenOptions::new().create(true).write(true).open(p).ok());
    while run < end {
        if verbose {
            eprintln!("run {}", run);
        }
        CUR_RUN.store(run, std::sync::atomic::Ordering::SeqCst);
        if let Some(f) = &curfile {
            use std::os::unix::fs::FileExt;
            let _ = f.write_at(&run.to_le_bytes(), 0);
        }
        let keep = run < def.configs.len() as u64 * 2 && samples.len() < 4;
        let o = execute_seeded(&def, seed, run, keep);
        runs += 1;
        steps += o.obs.steps;
        hash_acc = hash_acc.wrapping_add(mix(o.obs.hash, run));
        let cfgname = def.configs[cfg_of(&def, run)];
        *per_cfg.entry(cfgname.to_string()).or_insert(0) += 1;
        for (k, v) in &o.obs.faults {
            *faults.entry(k.to_string()).or_insert(0) += v;
        }
        for (k, v) in &o.obs.probes {
            *probes.entry(k.to_string()).or_insert(0) += v;
        }
        if o.obs.nontrivial {
            nontrivial += 1;
            sigs.insert(mix(o.obs.sig, cfg_of(&def, run) as u64));
        }
        if keep {
            let mut t = o.obs.trace.clone();
            t.truncate(40);
            samples.push(json!({"run": run, "config": cfgname, "trace": t}));
        }
        if let Err(v) = &o.result {
            if !viol.contains_key(&v.class) && viol.len() < 12 {
                viol.insert(
                    v.class.clone(),
                    json!({"run": run, "cfg": cfg_of(&def, run), "oracle": v.oracle, "class": v.class, "msg": v.msg,
                           "wtape": o.wtape, "etape": o.etape}),
                );
            }
        }
        let restart = crate::simnet::restart_requested();
        since_progress += 1;
        if since_progress >= 250 || restart {
            since_progress = 0;
            // partial results: survive a later abort or hang of this process
            let mut sigv: Vec<u64> = sigs.drain().collect();
            sigv.sort();
            let part = json!({
                "partial": true, "runs": runs, "steps": steps, "nontrivial": nontrivial, "hash": hash_acc,
                "faults": faults, "probes": probes, "per_cfg": per_cfg, "sigs": sigv,
                "violations": viol.values().collect::<Vec<_>>(), "samples": samples,
            });
            runs = 0;
            steps = 0;
            nontrivial = 0;
            hash_acc = 0;
            faults.clear();
            probes.clear();
            per_cfg.clear();
            samples.clear();
            let mut l = out.lock();
            let _ = writeln!(l, "{}", part);
            if restart {
                // threads of the finished run were abandoned (a node exited or hung): continue in a fresh process
                let _ = writeln!(l, "{}", json!({"restart_after": run}));
                let _ = l.flush();
                crate::leave(0)
            }
            let _ = l.flush();
        }
        run += step;
    }
    CUR_RUN.store(u64::MAX, std::sync::atomic::Ordering::SeqCst);
    let mut sigv: Vec<u64> = sigs.into_iter().collect();
    sigv.sort();
    let fin = json!({
        "done": true, "runs": runs, "steps": steps, "nontrivial": nontrivial, "hash": hash_acc,
        "faults": faults, "probes": probes, "per_cfg": per_cfg, "sigs": sigv,
        "violations": viol.values().collect::<Vec<_>>(), "samples": samples,
    });
    let mut l = out.lock();
    let _ = writeln!(l, "{}", fin);
    let _ = l.flush();
    0
}

// ------------------------------------------------------------------ known findings

#[derive(Clone, Debug)]
pub struct Known {
    pub property: String,
    pub class: String,
    pub what: String,
}

/// dry mode: checks generate their workload and damage, then return without
/// running the code under test (used to describe a run that killed its process)
pub fn dry() -> bool {
    static D: std::sync::OnceLock<bool> = std::sync::OnceLock::new();
    *D.get_or_init(|| std::env::var("VERIF_DRY").is_ok())
}

pub fn verif_root() -> std::path::PathBuf {
    std::env::var("VERIF_ROOT")
        .map(std::path::PathBuf::from)
        .unwrap_or_else(|_| std::path::PathBuf::from("/verif"))
}

pub fn load_known() -> Vec<Known> {
    let p = verif_root().join("known_findings.jsonl");
    let mut v = Vec::new();
    if let Ok(s) = std::fs::read_to_string(&p) {
        for line in s.lines() {
            let line = line.trim();
            if line.is_empty() || line.starts_with('#') || line.starts_with("fixed:") {
                continue;
            }
            if let Ok(j) = serde_json::from_str::<Value>(line) {
                if j["status"].as_str() == Some("known") {
                    v.push(Known {
                        property: j["property"].as_str().unwrap_or("").to_string(),
                        class: j["class"].as_str().unwrap_or("").to_string(),
                        what: j["what"].as_str().unwrap_or("").to_string(),
                    });
                }
            }
        }
    }
    v
}

// ------------------------------------------------------------------ shrink (in-process)

pub fn tapes_of(j: &Value) -> (Vec<u32>, Vec<u32>) {
    let f = |k: &str| -> Vec<u32> {
        j[k].as_array()
            .map(|a| a.iter().map(|x| x.as_u64().unwrap_or(0) as u32).collect())
            .unwrap_or_default()
    };
    (f("wtape"), f("etape"))
}

/// Shrink a violation (given as the JSON a worker printed); prints the
/// minimised replay document on stdout.
pub fn shrink_cmd(id: &str, viol_json: &str) -> i32 {
    let def = match find(id) {
        Some(d) => d,
        None => return 2,
    };
    install_panic_hook();
    let j: Value = match serde_json::from_str(viol_json) {
        Ok(j) => j,
        Err(e) => {
            eprintln!("bad violation json: {}", e);
            return 2;
        }
    };
    let cfg = j["cfg"].as_u64().unwrap_or(0) as usize;
    let class = j["class"].as_str().unwrap_or("").to_string();
    let (w, e) = tapes_of(&j);
    let max_exec: usize = std::env::var("VERIF_SHRINK_EXEC")
        .ok()
        .and_then(|s| s.parse().ok())
        .unwrap_or(3000);
    let t0 = Instant::now();
    let mut test = |w: &[u32], e: &[u32]| -> bool {
        if t0.elapsed().as_secs() > 30 {
            return false;
        }
        // once a simulated node has called exit() (or leaked a thread) this process cannot host another
        // run (std lets one thread per process through process::exit; a second caller blocks for good):
        // further candidates are executed in a child process each
        if crate::simnet::restart_requested() {
            return try_in_child(def.id, cfg, w, e).as_deref() == Some(class.as_str());
        }
        let o = execute(&def, cfg, Tape::replay(w.to_vec()), Tape::replay(e.to_vec()), false);
        matches!(&o.result, Err(v) if v.class == class)
    };
    // the recorded tapes must reproduce to begin with
    if !test(&w, &e) {
        println!("{}", json!({"reproduces": false}));
        return 0;
    }
    let (w2, e2, execs) = simcore::shrink(w, e, max_exec, &mut test);
    if crate::simnet::restart_requested() {
        // the final, traced execution needs a fresh process as well
        let doc = json!({"property": def.id, "cfg": cfg, "wtape": w2, "etape": e2, "seed": j["seed"], "run": j["run"], "shrink_execs": execs});
        return match child_json(&["final", def.id], &doc.to_string()) {
            Some(out) => {
                println!("{}", out);
                0
            }
            None => {
                println!("{}", json!({"reproduces": false}));
                0
            }
        };
    }
    print_final(&def, cfg, w2, e2, &j["seed"], &j["run"], execs);
    0
}

fn print_final(def: &CheckDef, cfg: usize, w2: Vec<u32>, e2: Vec<u32>, seed: &Value, run: &Value, execs: usize) {
    let o = execute(def, cfg, Tape::replay(w2.clone()), Tape::replay(e2.clone()), true);
    let v = match &o.result {
        Err(v) => v.clone(),
        Ok(()) => {
            println!("{}", json!({"reproduces": false}));
            return;
        }
    };
    println!(
        "{}",
        json!({
            "reproduces": true, "property": def.id, "config": def.configs[cfg], "cfg": cfg,
            "seed": seed, "run": run, "wtape": w2, "etape": e2,
            "violation": {"oracle": v.oracle, "class": v.class, "msg": v.msg},
            "trace": o.obs.trace, "hash": format!("{:016x}", o.obs.hash), "shrink_execs": execs,
        })
    );
}

/// `dcmsim try <id>` / `dcmsim final <id>`: one execution of the tapes given on stdin, in this (fresh) process
pub fn try_cmd(id: &str, doc: &str, fin: bool) -> i32 {
    let def = match find(id) {
        Some(d) => d,
        None => return 2,
    };
    install_panic_hook();
    let j: Value = match serde_json::from_str(doc) {
        Ok(j) => j,
        Err(_) => return 2,
    };
    let cfg = j["cfg"].as_u64().unwrap_or(0) as usize;
    let (w, e) = tapes_of(&j);
    if fin {
        print_final(&def, cfg, w, e, &j["seed"], &j["run"], j["shrink_execs"].as_u64().unwrap_or(0) as usize);
    } else {
        let o = execute(&def, cfg, Tape::replay(w), Tape::replay(e), false);
        println!("{}", json!({"class": o.result.err().map(|v| v.class)}));
    }
    use std::io::Write;
    let _ = std::io::stdout().flush();
    // leave without running exit handlers: a parked "exited" node thread may hold the guard in std's exit path
    crate::leave(0)
}

/// run `dcmsim <args>` with `input` on stdin; its stdout (one line), or None after 20 s / on failure
fn child_json(args: &[&str], input: &str) -> Option<String> {
    use std::io::{Read, Write};
    use std::process::{Command, Stdio};
    let exe = std::env::current_exe().ok()?;
    let mut ch = Command::new(exe).args(args).stdin(Stdio::piped()).stdout(Stdio::piped()).stderr(Stdio::null()).spawn().ok()?;
    ch.stdin.take()?.write_all(input.as_bytes()).ok()?;
    let t0 = Instant::now();
    loop {
        match ch.try_wait() {
            Ok(Some(_)) => break,
            Ok(None) => {
                if t0.elapsed().as_secs() > 20 {
                    let _ = ch.kill();
                    let _ = ch.wait();
                    return None;
                }
                std::thread::sleep(std::time::Duration::from_millis(2));
            }
            Err(_) => return None,
        }
    }
    let mut out = String::new();
    ch.stdout.take()?.read_to_string(&mut out).ok()?;
    out.lines().last().map(|l| l.to_string())
}

fn try_in_child(id: &str, cfg: usize, w: &[u32], e: &[u32]) -> Option<String> {
    let doc = json!({"cfg": cfg, "wtape": w, "etape": e});
    let out = child_json(&["try", id], &doc.to_string())?;
    let j: Value = serde_json::from_str(&out).ok()?;
    j["class"].as_str().map(|s| s.to_string())
}

/// Re-execute a replay file. exit 1 + VIOLATION line when it reproduces
/// exactly, exit 2 + REPLAY-MISMATCH otherwise.
pub fn replay_cmd(path: &str) -> i32 {
    let s = match std::fs::read_to_string(path) {
        Ok(s) => s,
        Err(e) => {
            eprintln!("cannot read {}: {}", path, e);
            return 2;
        }
    };
    let j: Value = match serde_json::from_str(&s) {
        Ok(j) => j,
        Err(e) => {
            eprintln!("bad replay file: {}", e);
            return 2;
        }
    };
    let id = j["property"].as_str().unwrap_or("");
    let def = match find(id) {
        Some(d) => d,
        None => {
            eprintln!("unknown property {}", id);
            return 2;
        }
    };
    install_panic_hook();
    let cfg = j["cfg"].as_u64().unwrap_or(0) as usize;
    let (w, e) = tapes_of(&j);
    let o = execute(&def, cfg, Tape::replay(w), Tape::replay(e), true);
    for l in &o.obs.trace {
        println!("  | {}", l);
    }
    let want_class = j["violation"]["class"].as_str().unwrap_or("");
    let want_hash = j["hash"].as_str().unwrap_or("");
    let got_hash = format!("{:016x}", o.obs.hash);
    match &o.result {
        Err(v) if v.class == want_class && got_hash == want_hash => {
            println!("violation reproduced: [{}] {}", v.oracle, v.msg);
            println!("VIOLATION property={} replay={}", id, path);
            1
        }
        Err(v) => {
            println!(
                "REPLAY-MISMATCH property={} class got={:?} want={:?} hash got={} want={}",
                id, v.class, want_class, got_hash, want_hash
            );
            2
        }
        Ok(()) => {
            println!("REPLAY-MISMATCH property={} run passed (no violation)", id);
            2
        }
    }
}

// ------------------------------------------------------------------ supervisor

pub struct Totals {
    pub runs: u64,
    pub steps: u64,
    pub nontrivial: u64,
    pub hash: u64,
    pub faults: BTreeMap<String, u64>,
    pub probes: BTreeMap<String, u64>,
    pub per_cfg: BTreeMap<String, u64>,
    pub sigs: HashSet<u64>,
    pub violations: BTreeMap<String, Value>,
    pub samples: Vec<Value>,
    pub dead_workers: Vec<(u64, Option<u64>, String)>,
    pub hung: Vec<u64>,
    pub killed: Vec<(u64, String)>,
}

fn add_map(dst: &mut BTreeMap<String, u64>, v: &Value) {
    if let Some(o) = v.as_object() {
        for (k, x) in o {
            *dst.entry(k.clone()).or_insert(0) += x.as_u64().unwrap_or(0);
        }
    }
}

pub fn self_exe() -> std::path::PathBuf {
    std::env::current_exe().expect("current_exe")
}

pub fn run_workers(def: &CheckDef, seed: u64, total_runs: u64, workers: u64) -> Totals {
    let mut t = Totals {
        runs: 0,
        steps: 0,
        nontrivial: 0,
        hash: 0,
        faults: BTreeMap::new(),
        probes: BTreeMap::new(),
        per_cfg: BTreeMap::new(),
        sigs: HashSet::new(),
        violations: BTreeMap::new(),
        samples: Vec::new(),
        dead_workers: Vec::new(),
        hung: Vec::new(),
        killed: Vec::new(),
    };
    let tmpdir = std::env::temp_dir().join("dcmsim-tmp");
    let _ = std::fs::create_dir_all(&tmpdir);
    let mut handles = Vec::new();
    for k in 0..workers {
        let id = def.id.to_string();
        let tmpdir = tmpdir.clone();
        handles.push(std::thread::spawn(move || {
            // one logical worker = residue class k; its process is restarted after the run that killed it
            let mut start = k;
            let mut fins: Vec<Value> = Vec::new();
            let mut deaths: Vec<(u64, String, bool)> = Vec::new(); // (run, status, hang)
            let mut restarts = 0u64;
            let curfile = tmpdir.join(format!("cur-{}-{}", std::process::id(), k));
            loop {
                let _ = std::fs::remove_file(&curfile);
                let mut child = Command::new(self_exe())
                    .args(["worker", &id, &seed.to_string(), &start.to_string(), &workers.to_string(), &total_runs.to_string()])
                    .env("VERIF_CURFILE", &curfile)
                    .stdout(Stdio::piped())
                    .stderr(Stdio::null())
                    .spawn()
                    .expect("spawn worker");
                let so = child.stdout.take().unwrap();
                let mut hang: Option<u64> = None;
                let mut restart_after: Option<u64> = None;
                let mut done = false;
                for line in BufReader::new(so).lines() {
                    let line = match line {
                        Ok(l) => l,
                        Err(_) => break,
                    };
                    if let Ok(j) = serde_json::from_str::<Value>(&line) {
                        if let Some(h) = j["hang"].as_u64() {
                            hang = Some(h);
                        } else if let Some(r) = j["restart_after"].as_u64() {
                            restart_after = Some(r);
                        } else if j["done"].as_bool() == Some(true) {
                            done = true;
                            fins.push(j);
                        } else if j["partial"].as_bool() == Some(true) {
                            fins.push(j);
                        }
                    }
                }
                let status = child.wait();
                if done {
                    break;
                }
                if let Some(r) = restart_after {
                    start = r + workers;
                    restarts += 1;
                    if start >= total_runs || restarts > 100_000 {
                        break;
                    }
                    continue;
                }
                // abnormal end: which run was executing?
                let cur = std::fs::read(&curfile).ok().and_then(|b| if b.len() >= 8 { Some(u64::from_le_bytes([b[0], b[1], b[2], b[3], b[4], b[5], b[6], b[7]])) } else { None });
                let killer = hang.or(cur);
                match killer {
                    Some(r) => {
                        deaths.push((r, format!("{:?}", status), hang.is_some()));
                        start = r + workers;
                        if start >= total_runs || deaths.len() >= 400 {
                            break;
                        }
                    }
                    None => {
                        deaths.push((u64::MAX, format!("{:?}", status), false));
                        break;
                    }
                }
            }
            let _ = std::fs::remove_file(&curfile);
            let _ = std::fs::remove_dir_all(tmpdir.join(format!("fs-{}-{}", std::process::id(), k)));
            (k, fins, deaths)
        }));
    }
    for h in handles {
        let (k, fins, deaths) = h.join().expect("join");
        for (run, status, hang) in deaths {
            if run == u64::MAX {
                t.dead_workers.push((k, None, status));
            } else if hang {
                t.hung.push(run);
            } else {
                t.killed.push((run, status));
            }
        }
        for j in fins {
            t.runs += j["runs"].as_u64().unwrap_or(0);
            t.steps += j["steps"].as_u64().unwrap_or(0);
            t.nontrivial += j["nontrivial"].as_u64().unwrap_or(0);
            t.hash = t.hash.wrapping_add(j["hash"].as_u64().unwrap_or(0));
            add_map(&mut t.faults, &j["faults"]);
            add_map(&mut t.probes, &j["probes"]);
            add_map(&mut t.per_cfg, &j["per_cfg"]);
            if let Some(a) = j["sigs"].as_array() {
                for s in a {
                    t.sigs.insert(s.as_u64().unwrap_or(0));
                }
            }
            if let Some(a) = j["violations"].as_array() {
                for v in a {
                    let class = v["class"].as_str().unwrap_or("").to_string();
                    let better = match t.violations.get(&class) {
                        None => true,
                        Some(old) => v["run"].as_u64() < old["run"].as_u64(),
                    };
                    if better {
                        t.violations.insert(class, v.clone());
                    }
                }
            }
            if let Some(a) = j["samples"].as_array() {
                for s in a {
                    if t.samples.len() < 6 {
                        t.samples.push(s.clone());
                    }
                }
            }
        }
    }
    t
}

fn tier_runs(def: &CheckDef, tier: &str) -> u64 {
    if let Ok(s) = std::env::var("VERIF_RUNS") {
        if let Ok(n) = s.parse() {
            return n;
        }
    }
    if tier == "thorough" {
        def.thorough_runs
    } else {
        def.quick_runs
    }
}

/// Locate the single run that kills a worker process (abort, stack overflow).
fn find_killer(def: &CheckDef, seed: u64, k: u64, workers: u64, from: u64, total: u64) -> Option<(u64, String)> {
    let mut run = from;
    // align to this worker's residue class
    while run % workers != k {
        run += 1;
    }
    let mut tried = 0;
    while run < total && tried < 600 {
        let st = Command::new(self_exe())
            .args([
                "worker",
                def.id,
                &seed.to_string(),
                &run.to_string(),
                "1",
                &(run + 1).to_string(),
            ])
            .stdout(Stdio::null())
            .stderr(Stdio::null())
            .status()
            .ok()?;
        if !st.success() {
            return Some((run, format!("{:?}", st)));
        }
        run += workers;
        tried += 1;
    }
    None
}

pub fn check_cmd(id: &str, tier: &str, seed: u64) -> i32 {
    let def = match find(id) {
        Some(d) => d,
        None => {
            eprintln!("unknown check {}", id);
            return 2;
        }
    };
    let t0 = Instant::now();
    let workers: u64 = std::env::var("VERIF_WORKERS")
        .ok()
        .and_then(|s| s.parse().ok())
        .unwrap_or(16);
    let total = tier_runs(&def, tier);
    println!(
        "check {} tier={} seed={} runs={} workers={} configs={:?}",
        id, tier, seed, total, workers, def.configs
    );
    let mut t = run_workers(&def, seed, total, workers);
    let known = load_known();
    let mut exit = 0;
    let mut n_viol = 0;
    let mut known_lines: Vec<String> = Vec::new();
    let mut viol_docs: Vec<Value> = Vec::new();

    // runs that killed their worker process (abort, stack overflow)
    for (run, st) in std::mem::take(&mut t.killed) {
        let o_cfg = cfg_of(&def, run);
        // describe the killing run: which damage kinds were applied (dry execution)
        let mut kinds: Vec<String> = Vec::new();
        if let Ok(o) = Command::new(self_exe())
            .args(["worker", def.id, &seed.to_string(), &run.to_string(), "1", &(run + 1).to_string()])
            .env("VERIF_DRY", "1")
            .stderr(Stdio::null())
            .output()
        {
            for line in String::from_utf8_lossy(&o.stdout).lines() {
                if let Ok(j) = serde_json::from_str::<Value>(line) {
                    if let Some(f) = j["faults"].as_object() {
                        for k in f.keys() {
                            if !kinds.contains(k) {
                                kinds.push(k.clone());
                            }
                        }
                    }
                }
            }
        }
        let class = if kinds.iter().any(|k| k == "nesting-bomb") {
            format!("abort:{}:nesting-bomb", def.configs[o_cfg])
        } else {
            format!("abort:{}", def.configs[o_cfg])
        };
        let st = format!("{}; damage applied: {:?}", st, kinds);
        let better = match t.violations.get(&class) {
            None => true,
            Some(old) => Some(run) < old["run"].as_u64(),
        };
        if better {
            t.violations.insert(
                class.clone(),
                json!({"run": run, "cfg": o_cfg, "oracle": "no-abort", "class": class,
                       "msg": format!("the worker process died ({}) while executing run {} (abort / stack overflow)", st, run),
                       "abort": true, "seed": seed}),
            );
        }
    }
    for (k, _last, status) in std::mem::take(&mut t.dead_workers) {
        println!("HARNESS-ERROR worker {} died ({}) and the run that killed it could not be identified", k, status);
        exit = 2;
    }
    for run in std::mem::take(&mut t.hung) {
        // confirm with one solitary re-run (no contention from sibling workers)
        let t1 = Instant::now();
        let st = Command::new(self_exe())
            .args(["worker", def.id, &seed.to_string(), &run.to_string(), "1", &(run + 1).to_string()])
            // judged by processor time, not by the wall clock, so that a loaded machine cannot turn a slow run
            // into a "hang": a spinning run is stopped after 120 s of CPU time (RLIMIT_CPU in the worker), a
            // blocked one after 10 minutes of wall time
            .env("VERIF_HANG_S", "600")
            .env("VERIF_CPU_LIMIT_S", "120")
            .stdout(Stdio::null())
            .stderr(Stdio::null())
            .status();
        if matches!(&st, Ok(s) if s.success()) {
            println!("note: run {} exceeded the watchdog under load but finishes alone in {:.1}s: slow, not a hang", run, t1.elapsed().as_secs_f64());
            *t.probes.entry("slow-run-not-hang".to_string()).or_insert(0) += 1;
            continue;
        }
        let o_cfg = cfg_of(&def, run);
        let class = format!("hang:{}", def.configs[o_cfg]);
        t.violations.entry(class.clone()).or_insert(json!({"run": run, "cfg": o_cfg, "oracle": "no-hang", "class": class,
            "msg": format!("run {} does not finish: re-run alone it used 120 s of processor time or stayed blocked for 10 minutes", run),
            "abort": true, "seed": seed}));
    }
    let viols: Vec<Value> = t.violations.values().cloned().collect();
    for mut v in viols {
        v["seed"] = json!(seed);
        let class = v["class"].as_str().unwrap_or("").to_string();
        if class.starts_with("HARNESS-PANIC") {
            println!("HARNESS-ERROR {}", v["msg"].as_str().unwrap_or(""));
            exit = 2;
            continue;
        }
        // minimise in a child process
        let doc = if v["abort"].as_bool() == Some(true) {
            // regenerate tapes from the seeds; cannot shrink in-process
            json!({"reproduces": true, "property": def.id, "cfg": v["cfg"], "config": def.configs[v["cfg"].as_u64().unwrap_or(0) as usize],
                   "seed": seed, "run": v["run"], "abort": true,
                   "violation": {"oracle": v["oracle"], "class": v["class"], "msg": v["msg"]},
                   "trace": [], "hash": ""})
        } else {
            let out = (|| -> std::io::Result<std::process::Output> {
                let mut ch = Command::new(self_exe())
                    .args(["shrink", def.id])
                    .stdin(Stdio::piped())
                    .stdout(Stdio::piped())
                    .stderr(Stdio::inherit())
                    .spawn()?;
                {
                    let mut si = ch.stdin.take().unwrap();
                    si.write_all(v.to_string().as_bytes())?;
                }
                // a shrinker that blocks (it hosts real node threads) is killed; the violation is then reported unshrunk
                let pid = ch.id() as i32;
                let done = std::sync::Arc::new(std::sync::atomic::AtomicBool::new(false));
                let done2 = done.clone();
                let killer = std::thread::spawn(move || {
                    let t0 = Instant::now();
                    while !done2.load(std::sync::atomic::Ordering::SeqCst) {
                        if t0.elapsed().as_secs() > 150 {
                            unsafe { libc::kill(pid, libc::SIGKILL) };
                            break;
                        }
                        std::thread::sleep(std::time::Duration::from_millis(50));
                    }
                });
                let r = ch.wait_with_output();
                done.store(true, std::sync::atomic::Ordering::SeqCst);
                let _ = killer.join();
                r
            })();
            match out {
                Ok(o) if o.status.success() => {
                    let s = String::from_utf8_lossy(&o.stdout);
                    match s.lines().last().and_then(|l| serde_json::from_str::<Value>(l).ok()) {
                        Some(d) if d["reproduces"].as_bool() == Some(true) => d,
                        _ => {
                            println!(
                                "HARNESS-ERROR violation of class {:?} at run {} did not reproduce from its recorded tapes (nondeterminism in the harness)",
                                class, v["run"]
                            );
                            exit = 2;
                            continue;
                        }
                    }
                }
                _ => {
                    // shrinker died: report unshrunk
                    json!({"reproduces": true, "property": def.id, "cfg": v["cfg"],
                           "config": def.configs[v["cfg"].as_u64().unwrap_or(0) as usize],
                           "seed": seed, "run": v["run"], "wtape": v["wtape"], "etape": v["etape"],
                           "violation": {"oracle": v["oracle"], "class": v["class"], "msg": v["msg"]},
                           "trace": [], "hash": "", "unshrunk": true})
                }
            }
        };
        let is_known = known
            .iter()
            .find(|k| k.property == def.id && k.class == class);
        if let Some(k) = is_known {
            known_lines.push(format!("KNOWN-FINDING: property={} {} [class {}]", def.id, k.what, class));
            continue;
        }
        n_viol += 1;
        let dir = verif_root().join("replays");
        let _ = std::fs::create_dir_all(&dir);
        let path = dir.join(format!(
            "{}-{}-{}-{:08x}.json",
            def.id,
            seed,
            v["run"].as_u64().unwrap_or(0),
            simcore::hash_str(&class) as u32
        ));
        let _ = std::fs::write(&path, serde_json::to_string_pretty(&doc).unwrap());
        println!(
            "violation [{}] class={:?}: {}",
            doc["violation"]["oracle"].as_str().unwrap_or(""),
            class,
            doc["violation"]["msg"].as_str().unwrap_or("")
        );
        println!("VIOLATION property={} replay={}", def.id, path.display());
        viol_docs.push(json!({"class": class, "replay": path.display().to_string()}));
        if exit == 0 {
            exit = 1;
        }
    }
    // every listed finding of this property is named, also when this run's sample did not reach it
    for k in known.iter().filter(|k| k.property == def.id) {
        if !known_lines.iter().any(|l| l.ends_with(&format!("[class {}]", k.class))) {
            println!("KNOWN-FINDING: property={} {} [class {}] (listed; not reached by this run's sample)", def.id, k.what, k.class);
        }
    }
    known_lines.sort();
    for l in &known_lines {
        println!("{}", l);
    }

    // reach self-check (thorough tier): required probes must have fired
    let mut missing: Vec<&str> = Vec::new();
    for p in def.required_probes {
        if t.probes.get(*p).cloned().unwrap_or(0) == 0 {
            missing.push(p);
        }
    }
    if !missing.is_empty() && (tier == "thorough" || std::env::var("VERIF_REQUIRE_PROBES").is_ok()) {
        println!(
            "HARNESS-ERROR reach probes stuck at zero: {:?} (the workload or fault mix must change)",
            missing
        );
        if exit == 0 {
            exit = 2;
        }
    }

    let wall = t0.elapsed().as_secs_f64();
    let ev = json!({
        "property_id": def.id,
        "tier": if tier == "thorough" { "thorough" } else { "quick" },
        "seed": seed,
        "level": def.level,
        "coverage": {
            "evaluations": t.runs,
            "distinct_nontrivial": t.sigs.len(),
            "rule": def.rule,
            "samples": t.samples,
            "simulated_runs": t.runs,
            "runs_per_hour": if wall > 0.0 { (t.runs as f64 / wall * 3600.0) as u64 } else { 0 },
            "seeds": [seed],
            "seed_derivation": "per run: workload tape seed = mix(mix(VERIF_SEED, fnv(check id)), 2*run), environment tape seed = same with 2*run+1",
            "simulated_time": {"unit": "logical environment/scheduler events (no wall clock is simulated: no claimed property quantifies over durations)", "events": t.steps},
            "runs_with_nondefault_environment": t.nontrivial,
            "faults_fired": t.faults,
            "probes": t.probes,
            "probes_missing": missing,
            "runs_per_config": t.per_cfg,
            "event_log_hash": format!("{:016x}", t.hash),
            "components_real": def.real,
            "components_stub": def.stub,
            "known_findings_hit": known_lines,
            "violations": viol_docs,
            "exhaustive": false,
        },
        "assumptions": def.assumptions,
        "wall_s": wall,
        "violations": n_viol,
    });
    // VERIF_EVIDENCE_DIR: scratch location for runs against a deliberately changed tree (seeded changes,
    // mutants), so that /verif/evidence always describes the tree as it is
    let evdir = std::env::var("VERIF_EVIDENCE_DIR").map(std::path::PathBuf::from).unwrap_or_else(|_| verif_root().join("evidence"));
    let _ = std::fs::create_dir_all(&evdir);
    let evpath = evdir.join(format!("{}.json", def.id));
    if let Err(e) = std::fs::write(&evpath, serde_json::to_string_pretty(&ev).unwrap()) {
        println!("HARNESS-ERROR cannot write evidence: {}", e);
        exit = 2;
    }
    println!(
        "{} runs={} distinct_nontrivial={} events={} wall={:.1}s violations={} known={} exit={}",
        def.id,
        t.runs,
        t.sigs.len(),
        t.steps,
        wall,
        n_viol,
        known_lines.len(),
        exit
    );
    exit
}

/// Determinism self-test: every check, N runs, twice in separate processes
/// and with different worker counts; the combined event-log hashes must agree.
pub fn selftest_determinism(ids: &[String], runs: u64) -> i32 {
    let mut bad = 0;
    for def in registry() {
        if !ids.is_empty() && !ids.iter().any(|i| i == def.id) {
            continue;
        }
        let a = run_workers(&def, DEFAULT_SEED, runs, 1);
        let b = run_workers(&def, DEFAULT_SEED, runs, 4);
        let c = run_workers(&def, DEFAULT_SEED, runs, 16);
        let ok = a.hash == b.hash && b.hash == c.hash && a.runs == runs && b.runs == runs && c.runs == runs;
        println!(
            "determinism {} runs={} hash1={:016x} hash4={:016x} hash16={:016x} {}",
            def.id,
            runs,
            a.hash,
            b.hash,
            c.hash,
            if ok { "OK" } else { "MISMATCH" }
        );
        if !ok {
            bad += 1;
        }
    }
    if bad > 0 {
        2
    } else {
        0
    }
}

/// a scratch directory on the real file system for the current worker (stable across respawns of the
/// same logical worker; removed by the supervisor when the check ends)
pub fn sandbox_dir() -> std::path::PathBuf {
    let base = std::env::temp_dir().join("dcmsim-tmp");
    let name = match std::env::var("VERIF_CURFILE") {
        Ok(p) => std::path::Path::new(&p).file_name().map(|f| f.to_string_lossy().replacen("cur-", "fs-", 1)).unwrap_or_else(|| format!("fs-p{}", std::process::id())),
        Err(_) => format!("fs-p{}", std::process::id()),
    };
    base.join(name)
}
