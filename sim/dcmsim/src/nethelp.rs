//! Helpers for the network-level checks: stub peers that speak raw bytes on a
//! simulated descriptor, node bodies for the real acceptor / requestor, and
//! the wire monitor.

use crate::simnet;
use dcmref::pdu as rp;
use std::os::fd::FromRawFd;
use std::sync::{Arc, Mutex};

/// send all bytes through the (interposed) socket call; false on error
pub fn raw_send_all(fd: i32, mut b: &[u8]) -> bool {
    while !b.is_empty() {
        let n = unsafe { libc::send(fd, b.as_ptr() as *const libc::c_void, b.len(), libc::MSG_NOSIGNAL) };
        if n <= 0 {
            return false;
        }
        b = &b[n as usize..];
    }
    true
}

/// receive until at least one complete PDU is buffered (or EOF / error)
pub fn raw_recv_pdu(fd: i32, buf: &mut Vec<u8>) -> Option<(u8, Vec<u8>)> {
    loop {
        let (frames, used) = rp::frame(buf);
        if let Some((t, body)) = frames.first() {
            let r = (*t, body.to_vec());
            let first_len = 6 + body.len();
            let _ = used;
            buf.drain(..first_len);
            return Some(r);
        }
        let mut tmp = [0u8; 4096];
        let n = unsafe { libc::recv(fd, tmp.as_mut_ptr() as *mut libc::c_void, tmp.len(), 0) };
        if n <= 0 {
            return None;
        }
        buf.extend_from_slice(&tmp[..n as usize]);
    }
}

pub fn raw_close(fd: i32) {
    unsafe { libc::close(fd) };
}

pub fn std_stream(fd: i32) -> std::net::TcpStream {
    unsafe { std::net::TcpStream::from_raw_fd(fd) }
}

pub type Shared<T> = Arc<Mutex<T>>;
pub fn shared<T>(v: T) -> Shared<T> {
    Arc::new(Mutex::new(v))
}

/// current-thread tokio runtime for an async node (I/O driver only)
pub fn async_rt() -> tokio::runtime::Runtime {
    tokio::runtime::Builder::new_current_thread().enable_io().build().expect("tokio runtime")
}

pub fn tokio_stream(fd: i32) -> tokio::net::TcpStream {
    let s = std_stream(fd);
    s.set_nonblocking(true).expect("nonblocking");
    tokio::net::TcpStream::from_std(s).expect("from_std")
}

/// all PDUs an endpoint put on the wire (complete frames only) and the trailing partial bytes
pub fn wire_pdus(ep: &simnet::Endpoint) -> (Vec<Result<rp::RPdu, String>>, usize) {
    let (frames, used) = rp::frame(&ep.sent);
    (frames.into_iter().map(|(t, b)| rp::parse_body(t, b)).collect(), ep.sent.len() - used)
}
