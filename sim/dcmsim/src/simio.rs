//! Engine A: simulated byte sources and sinks (`Read`/`Seek`/`Write` and
//! `AsyncRead`/`AsyncWrite`) whose every decision comes from the environment
//! tape, plus a hand-written poller for the async seams.

use simcore::{Obs, Tape};
use std::future::Future;
use std::io::{self, ErrorKind, Read, Seek, SeekFrom, Write};
use std::pin::Pin;
use std::sync::atomic::{AtomicBool, Ordering};
use std::sync::{Arc, Mutex};
use std::task::{Context, Poll, Wake, Waker};
use tokio::io::{AsyncRead, AsyncWrite, ReadBuf};

pub struct Env {
    pub e: Tape,
    pub obs: Obs,
    pub wakers: Vec<Waker>,
    /// when set, the async seams never answer Pending (used while a value
    /// whose Drop blocks on the transport is being dropped)
    pub no_pending: bool,
}

pub fn set_immediate_wake(env: &EnvRef, on: bool) {
    env.with(|e| e.no_pending = on);
}

#[derive(Clone)]
pub struct EnvRef(pub Arc<Mutex<Env>>);

impl EnvRef {
    pub fn new(e: Tape, obs: Obs) -> EnvRef {
        EnvRef(Arc::new(Mutex::new(Env {
            e,
            obs,
            wakers: Vec::new(),
            no_pending: false,
        })))
    }
    #[inline]
    pub fn with<R>(&self, f: impl FnOnce(&mut Env) -> R) -> R {
        let mut g = self.0.lock().unwrap_or_else(|p| p.into_inner());
        f(&mut g)
    }
    pub fn ev(&self, kind: &'static str, a: u64, b: u64) {
        self.with(|e| e.obs.ev(kind, a, b))
    }
    pub fn probe(&self, kind: &'static str) {
        self.with(|e| e.obs.probe(kind))
    }
    pub fn fault(&self, kind: &'static str) {
        self.with(|e| e.obs.fault(kind))
    }
    pub fn note(&self, s: &str) {
        self.with(|e| e.obs.note(s))
    }
    /// take the environment apart at the end of a run
    pub fn finish(self) -> (Tape, Obs) {
        match Arc::try_unwrap(self.0) {
            Ok(m) => {
                let env = m.into_inner().unwrap_or_else(|p| p.into_inner());
                (env.e, env.obs)
            }
            Err(arc) => {
                // something still holds a reference (leaked value): copy out
                let mut g = arc.lock().unwrap_or_else(|p| p.into_inner());
                let e = std::mem::replace(&mut g.e, Tape::replay(vec![]));
                let obs = std::mem::replace(&mut g.obs, Obs::new(false));
                (e, obs)
            }
        }
    }
}

// ------------------------------------------------------------------ faults

#[derive(Clone, Copy, Debug, PartialEq, Eq)]
pub enum FaultKind {
    /// io::Error of the given kind
    Err(ErrorKind),
    /// a write that accepts zero bytes / a read that reports end of stream
    Zero,
}

#[derive(Clone, Debug)]
pub struct Fault {
    /// absolute byte offset at which the transfer fails
    pub at: usize,
    pub kind: FaultKind,
    /// keep failing on every later call (true) or fail exactly once (false)
    pub persistent: bool,
}

pub const ERR_KINDS: [ErrorKind; 6] = [
    ErrorKind::BrokenPipe,
    ErrorKind::ConnectionReset,
    ErrorKind::TimedOut,
    ErrorKind::WouldBlock,
    ErrorKind::Other,
    ErrorKind::StorageFull,
];

// ------------------------------------------------------------------ source

#[derive(Clone, Debug, Default)]
pub struct SrcCfg {
    /// tape-chosen short reads
    pub short: bool,
    /// tape-chosen `Interrupted` results (must be retried by the reader)
    pub interrupted: bool,
    /// (async) tape-chosen `Pending` results
    pub pending: bool,
    /// fail when reaching this offset
    pub fault: Option<Fault>,
    /// offsets at which short reads like to cut
    pub cuts: Vec<usize>,
    /// always deliver at most this many bytes per call (0 = no limit)
    pub max_chunk: usize,
    /// size of the very first delivery (0 = tape decides)
    pub first_read: usize,
    /// step budget: after this many read calls the source fails every call
    /// and raises `over_budget` (0 = unlimited)
    pub call_budget: usize,
}

pub struct SimSource {
    data: Arc<Vec<u8>>,
    pos: usize,
    env: EnvRef,
    pub cfg: SrcCfg,
    /// bytes handed out so far (by read calls; seeks do not count)
    pub handed: usize,
    /// shared view of `handed`
    pub handed_shared: Arc<std::sync::atomic::AtomicUsize>,
    /// raised when the read-call budget was exhausted
    pub over_budget: Arc<AtomicBool>,
    pub calls: usize,
    pub fault_fired: bool,
    consecutive_intr: u32,
    pending_left: u32,
    tag: &'static str,
}

impl SimSource {
    pub fn new(data: Vec<u8>, env: &EnvRef, cfg: SrcCfg) -> SimSource {
        SimSource::shared(Arc::new(data), env, cfg)
    }
    pub fn shared(data: Arc<Vec<u8>>, env: &EnvRef, cfg: SrcCfg) -> SimSource {
        SimSource {
            data,
            pos: 0,
            env: env.clone(),
            cfg,
            handed: 0,
            handed_shared: Arc::new(std::sync::atomic::AtomicUsize::new(0)),
            over_budget: Arc::new(AtomicBool::new(false)),
            calls: 0,
            fault_fired: false,
            consecutive_intr: 0,
            pending_left: 0,
            tag: "rd",
        }
    }
    pub fn position(&self) -> usize {
        self.pos
    }
    pub fn len(&self) -> usize {
        self.data.len()
    }
    pub fn remaining(&self) -> usize {
        self.data.len() - self.pos
    }

    /// decide what this read call does; returns Ok(n) bytes to copy
    fn decide(&mut self, want: usize) -> io::Result<usize> {
        self.calls += 1;
        if self.cfg.call_budget > 0 && self.calls > self.cfg.call_budget {
            if !self.over_budget.swap(true, Ordering::SeqCst) {
                // who keeps reading? (call path through dicom-rs, for the report)
                let bt = std::backtrace::Backtrace::force_capture().to_string();
                let mut path: Vec<String> = Vec::new();
                for line in bt.lines() {
                    if let Some(rest) = line.trim().strip_prefix("at /repo/") {
                        let p = rest.rsplitn(2, ':').nth(1).unwrap_or(rest).to_string();
                        if path.last() != Some(&p) {
                            path.push(p);
                        }
                        if path.len() >= 8 {
                            break;
                        }
                    }
                }
                self.env.with(|e| e.obs.note_with(|| format!("read-call budget exhausted; caller path: {}", path.join(" <- "))));
            }
            return Err(io::Error::new(ErrorKind::Other, "simulated source: read-call budget exhausted"));
        }
        if want == 0 {
            return Ok(0);
        }
        let mut avail = self.data.len().saturating_sub(self.pos);
        // fault position
        if let Some(f) = self.cfg.fault.clone() {
            if self.pos >= f.at && (!self.fault_fired || f.persistent) {
                self.fault_fired = true;
                return match f.kind {
                    FaultKind::Err(k) => {
                        self.env.with(|e| {
                            e.obs.fault("read-error");
                            e.obs.ev("rd-err", self.pos as u64, 0)
                        });
                        Err(io::Error::new(k, "simulated read failure"))
                    }
                    FaultKind::Zero => {
                        self.env.with(|e| {
                            e.obs.fault("read-eof");
                            e.obs.ev("rd-eof", self.pos as u64, 0)
                        });
                        Ok(0)
                    }
                };
            }
            if self.pos < f.at && !self.fault_fired {
                avail = avail.min(f.at - self.pos);
            }
        }
        if avail == 0 {
            self.env.ev("rd-end", self.pos as u64, 0);
            return Ok(0);
        }
        let pos = self.pos;
        let want = want.min(avail);
        if self.cfg.first_read > 0 && self.handed == 0 {
            let n = self.cfg.first_read.min(want);
            self.env.with(|e| {
                e.obs.fault("first-read-cut");
                e.obs.ev("rd", n as u64, pos as u64)
            });
            return Ok(n);
        }
        let short = self.cfg.short;
        let intr = self.cfg.interrupted && self.consecutive_intr < 3;
        let cuts = &self.cfg.cuts;
        let max_chunk = self.cfg.max_chunk;
        let r = self.env.with(|env| {
            if intr && env.e.chance(1, 8) {
                env.obs.fault("read-interrupted");
                env.obs.ev("rd-intr", pos as u64, 0);
                return Err(());
            }
            let mut n = want;
            if short && want > 1 {
                n = match env.e.weighted(&[5, 2, 1, 1, 2, 2]) {
                    0 => want,
                    1 => 1,
                    2 => 1 + env.e.below(3.min(want as u32)) as usize,
                    3 => want - 1,
                    4 => 1 + env.e.below(want as u32) as usize,
                    _ => {
                        // cut at the next interesting absolute offset
                        let mut n = want;
                        for &c in cuts {
                            if c > pos && c - pos < n {
                                n = c - pos;
                            }
                        }
                        n
                    }
                };
                if n < want {
                    env.obs.fault("short-read");
                }
            }
            if max_chunk > 0 {
                n = n.min(max_chunk);
            }
            env.obs.ev("rd", n as u64, pos as u64);
            Ok(n)
        });
        match r {
            Err(()) => {
                self.consecutive_intr += 1;
                Err(io::Error::new(ErrorKind::Interrupted, "simulated EINTR"))
            }
            Ok(n) => {
                self.consecutive_intr = 0;
                Ok(n)
            }
        }
    }
}

impl Read for SimSource {
    fn read(&mut self, buf: &mut [u8]) -> io::Result<usize> {
        let n = self.decide(buf.len())?;
        buf[..n].copy_from_slice(&self.data[self.pos..self.pos + n]);
        self.pos += n;
        self.handed += n;
        self.handed_shared.store(self.handed, Ordering::SeqCst);
        let _ = self.tag;
        Ok(n)
    }
}

impl Seek for SimSource {
    fn seek(&mut self, to: SeekFrom) -> io::Result<u64> {
        let new = match to {
            SeekFrom::Start(o) => o as i128,
            SeekFrom::End(o) => self.data.len() as i128 + o as i128,
            SeekFrom::Current(o) => self.pos as i128 + o as i128,
        };
        if new < 0 {
            return Err(io::Error::new(ErrorKind::InvalidInput, "seek before start"));
        }
        let new = (new as usize).min(usize::MAX / 2);
        self.env.ev("seek", new as u64, self.pos as u64);
        // seeking past the end is legal; reads there return 0
        self.pos = new;
        Ok(new as u64)
    }
}

impl AsyncRead for SimSource {
    fn poll_read(
        mut self: Pin<&mut Self>,
        cx: &mut Context<'_>,
        buf: &mut ReadBuf<'_>,
    ) -> Poll<io::Result<()>> {
        let this = &mut *self;
        if this.cfg.pending && !this.env.with(|e| e.no_pending) {
            if this.pending_left > 0 {
                this.pending_left -= 1;
                let w = cx.waker().clone();
                this.env.with(|e| {
                    e.obs.ev("rd-pending", this.pos as u64, 1);
                    e.wakers.push(w)
                });
                return Poll::Pending;
            }
            let k = this.env.with(|e| {
                if e.e.chance(1, 4) {
                    1 + e.e.below(3)
                } else {
                    0
                }
            });
            if k > 0 {
                this.pending_left = k - 1;
                let w = cx.waker().clone();
                this.env.with(|e| {
                    e.obs.fault("read-pending");
                    e.obs.ev("rd-pending", this.pos as u64, 0);
                    e.wakers.push(w)
                });
                return Poll::Pending;
            }
        }
        let n = match this.decide(buf.remaining()) {
            Ok(n) => n,
            Err(e) => return Poll::Ready(Err(e)),
        };
        buf.put_slice(&this.data[this.pos..this.pos + n]);
        this.pos += n;
        this.handed += n;
        this.handed_shared.store(this.handed, Ordering::SeqCst);
        Poll::Ready(Ok(()))
    }
}

// ------------------------------------------------------------------ sink

#[derive(Clone, Debug, Default)]
pub struct SinkCfg {
    pub short: bool,
    pub interrupted: bool,
    pub pending: bool,
    pub fault: Option<Fault>,
    /// fail `flush` (after everything was accepted)
    pub flush_fault: Option<ErrorKind>,
    pub max_chunk: usize,
}

pub struct SimSink {
    /// the bytes the sink accepted
    pub data: Vec<u8>,
    env: EnvRef,
    pub cfg: SinkCfg,
    pub calls: usize,
    pub flushes: usize,
    pub fault_fired: bool,
    /// number of write calls made after the fault fired
    pub calls_after_fault: usize,
    /// shared view of the number of bytes accepted so far
    pub count: Arc<std::sync::atomic::AtomicUsize>,
    consecutive_intr: u32,
    pending_left: u32,
}

impl SimSink {
    pub fn new(env: &EnvRef, cfg: SinkCfg) -> SimSink {
        SimSink {
            data: Vec::new(),
            env: env.clone(),
            cfg,
            calls: 0,
            flushes: 0,
            fault_fired: false,
            calls_after_fault: 0,
            count: Arc::new(std::sync::atomic::AtomicUsize::new(0)),
            consecutive_intr: 0,
            pending_left: 0,
        }
    }

    fn decide(&mut self, len: usize) -> io::Result<usize> {
        self.calls += 1;
        if len == 0 {
            return Ok(0);
        }
        let pos = self.data.len();
        let mut room = len;
        if self.fault_fired {
            self.calls_after_fault += 1;
        }
        if let Some(f) = self.cfg.fault.clone() {
            if pos >= f.at && (!self.fault_fired || f.persistent) {
                self.fault_fired = true;
                return match f.kind {
                    FaultKind::Err(k) => {
                        self.env.with(|e| {
                            e.obs.fault("write-error");
                            e.obs.ev("wr-err", pos as u64, 0)
                        });
                        Err(io::Error::new(k, "simulated write failure"))
                    }
                    FaultKind::Zero => {
                        self.env.with(|e| {
                            e.obs.fault("write-zero");
                            e.obs.ev("wr-zero", pos as u64, 0)
                        });
                        Ok(0)
                    }
                };
            }
            if pos < f.at && !self.fault_fired {
                room = room.min(f.at - pos);
            }
        }
        let short = self.cfg.short;
        let intr = self.cfg.interrupted && self.consecutive_intr < 3;
        let max_chunk = self.cfg.max_chunk;
        let r = self.env.with(|env| {
            if intr && env.e.chance(1, 8) {
                env.obs.fault("write-interrupted");
                env.obs.ev("wr-intr", pos as u64, 0);
                return Err(());
            }
            let mut n = room;
            if short && room > 1 {
                n = match env.e.weighted(&[5, 2, 1, 1, 2]) {
                    0 => room,
                    1 => 1,
                    2 => 1 + env.e.below(3.min(room as u32)) as usize,
                    3 => room - 1,
                    _ => 1 + env.e.below(room as u32) as usize,
                };
                if n < room {
                    env.obs.fault("short-write");
                }
            }
            if max_chunk > 0 {
                n = n.min(max_chunk);
            }
            env.obs.ev("wr", n as u64, pos as u64);
            Ok(n)
        });
        match r {
            Err(()) => {
                self.consecutive_intr += 1;
                Err(io::Error::new(ErrorKind::Interrupted, "simulated EINTR"))
            }
            Ok(n) => {
                self.consecutive_intr = 0;
                Ok(n)
            }
        }
    }

    fn do_flush(&mut self) -> io::Result<()> {
        self.flushes += 1;
        if let Some(k) = self.cfg.flush_fault {
            self.env.with(|e| {
                e.obs.fault("flush-error");
                e.obs.ev("flush-err", self.data.len() as u64, 0)
            });
            return Err(io::Error::new(k, "simulated flush failure"));
        }
        self.env.ev("flush", self.data.len() as u64, 0);
        Ok(())
    }
}

impl Write for SimSink {
    fn write(&mut self, buf: &[u8]) -> io::Result<usize> {
        let n = self.decide(buf.len())?;
        self.data.extend_from_slice(&buf[..n]);
        self.count.store(self.data.len(), Ordering::SeqCst);
        Ok(n)
    }
    fn flush(&mut self) -> io::Result<()> {
        self.do_flush()
    }
}

impl AsyncWrite for SimSink {
    fn poll_write(
        mut self: Pin<&mut Self>,
        cx: &mut Context<'_>,
        buf: &[u8],
    ) -> Poll<io::Result<usize>> {
        let this = &mut *self;
        if this.cfg.pending && !this.env.with(|e| e.no_pending) {
            if this.pending_left > 0 {
                this.pending_left -= 1;
                let w = cx.waker().clone();
                this.env.with(|e| {
                    e.obs.ev("wr-pending", this.data.len() as u64, 1);
                    e.wakers.push(w)
                });
                return Poll::Pending;
            }
            let k = this.env.with(|e| {
                if e.e.chance(1, 4) {
                    1 + e.e.below(3)
                } else {
                    0
                }
            });
            if k > 0 {
                this.pending_left = k - 1;
                let w = cx.waker().clone();
                this.env.with(|e| {
                    e.obs.fault("write-pending");
                    e.obs.ev("wr-pending", this.data.len() as u64, 0);
                    e.wakers.push(w)
                });
                return Poll::Pending;
            }
        }
        match this.decide(buf.len()) {
            Ok(n) => {
                this.data.extend_from_slice(&buf[..n]);
                this.count.store(this.data.len(), Ordering::SeqCst);
                Poll::Ready(Ok(n))
            }
            Err(e) => Poll::Ready(Err(e)),
        }
    }
    fn poll_flush(mut self: Pin<&mut Self>, _cx: &mut Context<'_>) -> Poll<io::Result<()>> {
        Poll::Ready(self.do_flush())
    }
    fn poll_shutdown(self: Pin<&mut Self>, _cx: &mut Context<'_>) -> Poll<io::Result<()>> {
        self.env.ev("shutdown", self.data.len() as u64, 0);
        Poll::Ready(Ok(()))
    }
}

// ------------------------------------------------------------------ poller

struct Flag(AtomicBool);
impl Wake for Flag {
    fn wake(self: Arc<Self>) {
        self.0.store(true, Ordering::SeqCst);
    }
    fn wake_by_ref(self: &Arc<Self>) {
        self.0.store(true, Ordering::SeqCst);
    }
}

#[derive(Debug)]
pub enum DriveError {
    /// the future returned Pending although nobody holds its waker and it was
    /// not woken: it would sleep forever
    LostWakeup { polls: usize },
    /// poll budget exhausted
    Budget { polls: usize },
}

/// Drive a future to completion on the calling thread. A `Pending` result is
/// followed by waking every waker the simulated seams have registered (the
/// "later event"); a `Pending` with no registered waker and no self-wake is a
/// lost wake-up.
pub fn drive<F: Future>(env: &EnvRef, mut fut: Pin<&mut F>, max_polls: usize) -> Result<F::Output, DriveError> {
    let flag = Arc::new(Flag(AtomicBool::new(false)));
    let waker = Waker::from(flag.clone());
    let mut cx = Context::from_waker(&waker);
    let mut polls = 0usize;
    loop {
        flag.0.store(false, Ordering::SeqCst);
        polls += 1;
        match fut.as_mut().poll(&mut cx) {
            Poll::Ready(v) => return Ok(v),
            Poll::Pending => {
                let ws = env.with(|e| std::mem::take(&mut e.wakers));
                if ws.is_empty() && !flag.0.load(Ordering::SeqCst) {
                    return Err(DriveError::LostWakeup { polls });
                }
                for w in ws {
                    w.wake();
                }
                if polls >= max_polls {
                    return Err(DriveError::Budget { polls });
                }
            }
        }
    }
}
