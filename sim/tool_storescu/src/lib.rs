//! storescu as a library: the tool's own source files, unmodified, plus an
//! entry point that runs the real synchronous `run(app)` body with arguments
//! parsed by the tool's own clap definition.
#![allow(dead_code, unused_imports)]

include!("/repo/storescu/src/main.rs");

/// run the tool's synchronous mode
pub fn run_tool(args: &[String]) -> Result<(), String> {
    let app = App::try_parse_from(args).map_err(|e| e.to_string())?;
    run(app).map_err(|e| snafu::Report::from_error(e).to_string())
}
