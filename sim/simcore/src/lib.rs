//! simcore: the deterministic core shared by every simulated check.
//!
//! * `Tape`  — the single source of every random decision (generate / replay).
//! * `Obs`   — event log hash, trace, fault/probe counters, trace signature.
//! * `Violation` — what an oracle reports.
//! * `shrink` — tape minimisation while the same violation class persists.
//!
//! Nothing in here reads a clock or any other ambient source of
//! nondeterminism.

use std::collections::BTreeMap;

pub use serde_json;

// ---------------------------------------------------------------- PRNG

#[inline]
pub fn splitmix64(state: &mut u64) -> u64 {
    *state = state.wrapping_add(0x9E37_79B9_7F4A_7C15);
    let mut z = *state;
    z = (z ^ (z >> 30)).wrapping_mul(0xBF58_476D_1CE4_E5B9);
    z = (z ^ (z >> 27)).wrapping_mul(0x94D0_49BB_1331_11EB);
    z ^ (z >> 31)
}

pub fn mix(a: u64, b: u64) -> u64 {
    let mut s = a ^ b.rotate_left(32) ^ 0xD6E8_FEB8_6659_FD93;
    let x = splitmix64(&mut s);
    let y = splitmix64(&mut s);
    x ^ y.rotate_left(17)
}

pub fn hash_str(s: &str) -> u64 {
    fnv1a(s.as_bytes())
}

pub fn fnv1a(b: &[u8]) -> u64 {
    let mut h: u64 = 0xcbf2_9ce4_8422_2325;
    for &x in b {
        h ^= x as u64;
        h = h.wrapping_mul(0x0000_0100_0000_01B3);
    }
    h
}

/// Deterministic pattern bytes (payload contents never come from the tape:
/// only the pattern seed does).
pub fn pattern_bytes(seed: u32, len: usize) -> Vec<u8> {
    let mut v = Vec::with_capacity(len);
    let mut s = (seed as u64).wrapping_mul(0x9E37_79B9_7F4A_7C15) ^ 0x1234_5678;
    let mut i = 0;
    while i < len {
        let x = splitmix64(&mut s);
        for k in 0..8 {
            if i >= len {
                break;
            }
            v.push((x >> (k * 8)) as u8);
            i += 1;
        }
    }
    if seed == 0 {
        // the simplest pattern: a counting sequence (easier to read in traces)
        for (i, b) in v.iter_mut().enumerate() {
            *b = i as u8;
        }
    }
    v
}

// ---------------------------------------------------------------- Tape

#[derive(Clone, Debug)]
enum Mode {
    Gen(u64),
    Replay,
}

/// Records or replays every random decision of one run.
///
/// Convention: generators are written so that the value 0 is the simplest,
/// most benign choice (smallest, first alternative, no fault). Past the end
/// of a replayed tape every draw returns 0.
#[derive(Clone, Debug)]
pub struct Tape {
    mode: Mode,
    pub rec: Vec<u32>,
    pos: usize,
}

impl Tape {
    pub fn generate(seed: u64) -> Tape {
        Tape {
            mode: Mode::Gen(seed),
            rec: Vec::new(),
            pos: 0,
        }
    }
    pub fn replay(rec: Vec<u32>) -> Tape {
        Tape {
            mode: Mode::Replay,
            rec,
            pos: 0,
        }
    }
    pub fn is_replay(&self) -> bool {
        matches!(self.mode, Mode::Replay)
    }
    /// number of draws made so far
    pub fn draws(&self) -> usize {
        match self.mode {
            Mode::Gen(_) => self.rec.len(),
            Mode::Replay => self.pos,
        }
    }
    /// the values actually consumed (for replay files)
    pub fn consumed(&self) -> Vec<u32> {
        match self.mode {
            Mode::Gen(_) => self.rec.clone(),
            Mode::Replay => {
                let mut v: Vec<u32> = self.rec.iter().cloned().take(self.pos).collect();
                while v.len() < self.pos {
                    v.push(0);
                }
                v
            }
        }
    }

    /// uniform value in 0..n (n >= 1)
    #[inline]
    pub fn below(&mut self, n: u32) -> u32 {
        debug_assert!(n >= 1);
        let n = n.max(1);
        match &mut self.mode {
            Mode::Gen(s) => {
                let v = (splitmix64(s) % n as u64) as u32;
                self.rec.push(v);
                v
            }
            Mode::Replay => {
                let v = self.rec.get(self.pos).cloned().unwrap_or(0);
                self.pos += 1;
                v % n
            }
        }
    }
    /// value in lo..=hi
    #[inline]
    pub fn range(&mut self, lo: u32, hi: u32) -> u32 {
        debug_assert!(hi >= lo);
        lo + self.below(hi - lo + 1)
    }
    /// true with probability num/den; 0 on the tape means false
    #[inline]
    pub fn chance(&mut self, num: u32, den: u32) -> bool {
        // map so that recorded 0 => false
        let v = self.below(den);
        v >= den - num.min(den) && num > 0
    }
    /// weighted choice; index 0 is the benign default and should carry the
    /// first weight
    pub fn weighted(&mut self, weights: &[u32]) -> usize {
        let total: u32 = weights.iter().sum();
        let mut v = self.below(total.max(1));
        for (i, w) in weights.iter().enumerate() {
            if v < *w {
                return i;
            }
            v -= *w;
        }
        0
    }
    pub fn pick<'a, T>(&mut self, xs: &'a [T]) -> &'a T {
        &xs[self.below(xs.len() as u32) as usize]
    }
    /// size biased toward small values and toward the interesting ones given
    pub fn size(&mut self, max: u32, interesting: &[u32]) -> u32 {
        match self.weighted(&[3, 3, 2, 2]) {
            0 => self.below(max.min(8) + 1),
            1 => {
                if interesting.is_empty() {
                    self.below(max + 1)
                } else {
                    (*self.pick(interesting)).min(max)
                }
            }
            2 => self.below(max.min(300) + 1),
            _ => self.below(max + 1),
        }
    }
}

// ---------------------------------------------------------------- Obs

/// Observation of one run: deterministic event log (hashed always, kept as
/// text only when `keep_trace`), fault and probe counters, trace signature.
pub struct Obs {
    pub keep_trace: bool,
    pub trace: Vec<String>,
    pub hash: u64,
    pub sig: u64,
    pub steps: u64,
    pub nontrivial: bool,
    pub faults: BTreeMap<&'static str, u64>,
    pub probes: BTreeMap<&'static str, u64>,
    trace_cap: usize,
}

impl Obs {
    pub fn new(keep_trace: bool) -> Obs {
        Obs {
            keep_trace,
            trace: Vec::new(),
            hash: 0xcbf2_9ce4_8422_2325,
            sig: 0x1000_0000_01B3,
            steps: 0,
            nontrivial: false,
            faults: BTreeMap::new(),
            probes: BTreeMap::new(),
            trace_cap: 4000,
        }
    }
    #[inline]
    fn feed(&mut self, kind: &str, a: u64, b: u64) {
        let mut h = self.hash;
        for &x in kind.as_bytes() {
            h ^= x as u64;
            h = h.wrapping_mul(0x0000_0100_0000_01B3);
        }
        h ^= a.wrapping_mul(0x9E37_79B9_7F4A_7C15);
        h = h.wrapping_mul(0x0000_0100_0000_01B3);
        h ^= b.wrapping_mul(0xC2B2_AE3D_27D4_EB4F);
        h = h.wrapping_mul(0x0000_0100_0000_01B3);
        self.hash = h;
        // signature: kind + size class only
        let mut s = self.sig;
        for &x in kind.as_bytes() {
            s ^= x as u64;
            s = s.wrapping_mul(0x0000_0100_0000_01B3);
        }
        s ^= (64 - a.leading_zeros()) as u64;
        s = s.wrapping_mul(0x0000_0100_0000_01B3);
        self.sig = s;
    }
    /// an event of the simulated execution (a scheduler / environment step)
    #[inline]
    pub fn ev(&mut self, kind: &'static str, a: u64, b: u64) {
        self.steps += 1;
        self.feed(kind, a, b);
        if self.keep_trace && self.trace.len() < self.trace_cap {
            self.trace.push(format!("{} {} {}", kind, a, b));
        }
    }
    /// a free-text note: hashed, kept in the trace
    pub fn note(&mut self, s: &str) {
        self.hash ^= fnv1a(s.as_bytes());
        self.hash = self.hash.wrapping_mul(0x0000_0100_0000_01B3);
        if self.keep_trace && self.trace.len() < self.trace_cap {
            self.trace.push(s.to_string());
        }
    }
    /// lazily built note (free when no trace is kept); NOT hashed
    #[inline]
    pub fn note_with(&mut self, f: impl FnOnce() -> String) {
        if self.keep_trace && self.trace.len() < self.trace_cap {
            let s = f();
            self.trace.push(s);
        }
    }
    /// an injected fault / non-default environment decision actually fired
    #[inline]
    pub fn fault(&mut self, kind: &'static str) {
        *self.faults.entry(kind).or_insert(0) += 1;
        self.nontrivial = true;
    }
    /// a rare condition the check cares about was reached
    #[inline]
    pub fn probe(&mut self, kind: &'static str) {
        *self.probes.entry(kind).or_insert(0) += 1;
    }
}

// ---------------------------------------------------------------- Violation

#[derive(Clone, Debug)]
pub struct Violation {
    /// which oracle fired
    pub oracle: String,
    /// human-readable description of this instance
    pub msg: String,
    /// violation class signature: what the shrinker must preserve and what
    /// known-finding classifiers are matched against
    pub class: String,
}

impl Violation {
    pub fn new(oracle: &str, class: impl Into<String>, msg: impl Into<String>) -> Violation {
        Violation {
            oracle: oracle.to_string(),
            msg: msg.into(),
            class: class.into(),
        }
    }
}

pub type RunResult = Result<(), Violation>;

#[macro_export]
macro_rules! fail {
    ($oracle:expr, $class:expr, $($arg:tt)*) => {
        return Err($crate::Violation::new($oracle, $class, format!($($arg)*)))
    };
}

#[macro_export]
macro_rules! check {
    ($cond:expr, $oracle:expr, $class:expr, $($arg:tt)*) => {
        if !($cond) {
            return Err($crate::Violation::new($oracle, $class, format!($($arg)*)));
        }
    };
}

// ---------------------------------------------------------------- shrink

/// Minimise `(w, e)` while `test(w, e)` keeps returning true (same violation
/// class). `test` must be a pure function of the two tapes. Bounded by
/// `max_exec` executions.
pub fn shrink(
    w: Vec<u32>,
    e: Vec<u32>,
    max_exec: usize,
    test: &mut dyn FnMut(&[u32], &[u32]) -> bool,
) -> (Vec<u32>, Vec<u32>, usize) {
    let mut w = w;
    let mut e = e;
    let mut execs = 0usize;
    // environment first (remove faults, simplify schedule), then workload
    for round in 0..4 {
        let before = (w.clone(), e.clone());
        {
            let wc = w.clone();
            let mut t = |cand: &[u32]| test(&wc, cand);
            e = shrink_one(e, &mut execs, max_exec, &mut t);
        }
        {
            let ec = e.clone();
            let mut t = |cand: &[u32]| test(cand, &ec);
            w = shrink_one(w, &mut execs, max_exec, &mut t);
        }
        if (w.clone(), e.clone()) == before || execs >= max_exec {
            let _ = round;
            break;
        }
    }
    (w, e, execs)
}

fn shrink_one(
    mut v: Vec<u32>,
    execs: &mut usize,
    max_exec: usize,
    test: &mut dyn FnMut(&[u32]) -> bool,
) -> Vec<u32> {
    // 0. truncate the tail (past-the-end draws are 0)
    let mut try_ = |cand: &Vec<u32>, execs: &mut usize| -> bool {
        if *execs >= max_exec {
            return false;
        }
        *execs += 1;
        test(cand)
    };
    // drop trailing zeros: semantically identical
    while v.last() == Some(&0) {
        v.pop();
    }
    // 1. truncate
    let mut cut = v.len() / 2;
    while cut >= 1 && !v.is_empty() {
        if v.len() > cut {
            let cand: Vec<u32> = v[..v.len() - cut].to_vec();
            if try_(&cand, execs) {
                v = cand;
                continue;
            }
        }
        cut /= 2;
    }
    // 2. zero spans, 3. delete spans
    let mut span = (v.len() / 2).max(1);
    loop {
        let mut i = 0;
        while i < v.len() {
            let end = (i + span).min(v.len());
            if v[i..end].iter().any(|&x| x != 0) {
                let mut cand = v.clone();
                for x in &mut cand[i..end] {
                    *x = 0;
                }
                if try_(&cand, execs) {
                    v = cand;
                }
            }
            i += span;
        }
        let mut i = 0;
        while i < v.len() {
            let end = (i + span).min(v.len());
            let mut cand = v.clone();
            cand.drain(i..end);
            if try_(&cand, execs) {
                v = cand;
            } else {
                i += span;
            }
        }
        if span == 1 {
            break;
        }
        span /= 2;
    }
    // 4. lower individual values
    for i in 0..v.len() {
        if v[i] == 0 {
            continue;
        }
        // try 0, then binary descent
        let mut cand = v.clone();
        cand[i] = 0;
        if try_(&cand, execs) {
            v = cand;
            continue;
        }
        let mut lo = 0u32; // known failing-to-reproduce
        let mut hi = v[i]; // known reproducing
        while hi - lo > 1 {
            let mid = lo + (hi - lo) / 2;
            let mut cand = v.clone();
            cand[i] = mid;
            if try_(&cand, execs) {
                hi = mid;
            } else {
                lo = mid;
            }
            if *execs >= max_exec {
                break;
            }
        }
        v[i] = hi;
    }
    while v.last() == Some(&0) {
        v.pop();
    }
    v
}

#[cfg(test)]
mod tests {
    use super::*;
    #[test]
    fn tape_replay_is_identical() {
        let mut t = Tape::generate(42);
        let a: Vec<u32> = (0..100).map(|i| t.below(i + 1)).collect();
        let mut r = Tape::replay(t.consumed());
        let b: Vec<u32> = (0..100).map(|i| r.below(i + 1)).collect();
        assert_eq!(a, b);
    }
    #[test]
    fn shrink_finds_small() {
        let w = vec![5, 9, 200, 3, 7, 7, 7];
        let e = vec![1, 2, 3];
        let mut t = |w: &[u32], _e: &[u32]| w.iter().any(|&x| x >= 100);
        let (w2, e2, _) = shrink(w, e, 1000, &mut t);
        assert_eq!(w2, vec![100]);
        assert!(e2.is_empty());
    }
}
