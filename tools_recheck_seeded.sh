#!/bin/bash
# tools_recheck_seeded.sh [seeded dir names...]  (default: all)
# applies each seeded patch to /repo, runs the checks named in its meta.json (plus the property's own),
# stores the logs and the exit codes in meta.json, reverts /repo. Never run while another check runs.
set -u
cd /verif/seeded || exit 2
DIRS="${@:-$(ls)}"
for d in $DIRS; do
  [ -f "$d/patch.diff" ] || continue
  git -C /repo diff --quiet || { echo "/repo has local changes; abort"; exit 2; }
  git -C /repo apply "/verif/seeded/$d/patch.diff" || { echo "$d: patch does not apply"; continue; }
  CHECKS=$(python3 - "$d" <<'PY'
import json,sys
m=json.load(open(f"/verif/seeded/{sys.argv[1]}/meta.json"))
ids=[m["property"]]+[c.split(":")[0] for c in m.get("checks_run",[])]
seen=[]
for i in ids:
    if i not in seen: seen.append(i)
print(" ".join(seen))
PY
)
  RES=""
  for c in $CHECKS; do
    VERIF_EVIDENCE_DIR=/tmp/verif_scratch_evidence /verif/check $c --tier quick > "/verif/seeded/$d/check_$c.log" 2>&1; E=$?
    RES="$RES $c:exit$E"
  done
  git -C /repo checkout -q -- .
  python3 - "$d" "$RES" <<'PY'
import json,sys
p=f"/verif/seeded/{sys.argv[1]}/meta.json"
m=json.load(open(p)); m["checks_run"]=sys.argv[2].split(); json.dump(m,open(p,"w"),indent=1)
PY
  echo "$d:$RES"
done
