#!/usr/bin/env python3
"""Runs the repository's suite (guard OFF) and compares with /root/.vp/BASELINE.json stable_pass."""
import json, re, subprocess, sys
base = json.load(open('/root/.vp/BASELINE.json'))
want = set(base['stable_pass'])
p = subprocess.run("cd /repo && cargo test --workspace --no-fail-fast --offline 2>&1", shell=True, capture_output=True, text=True)
out = p.stdout
# map "Running unittests src/lib.rs (target/debug/deps/dicom_core-xxxx)" -> crate name
crate = None
passed = set(); failed = set()
for line in out.splitlines():
    m = re.search(r'Running (?:unittests )?(\S+) \(target/debug/deps/([A-Za-z0-9_]+)-[0-9a-f]+\)', line)
    if m:
        crate = m.group(2).replace('_', '-')
        continue
    m = re.search(r'Doc-tests (\S+)', line)
    if m:
        crate = None
        continue
    m = re.match(r'test (\S+) \.\.\. (ok|FAILED|ignored)', line)
    if m and crate:
        name = f"{crate}::{m.group(1)}"
        (passed if m.group(2) == 'ok' else failed if m.group(2) == 'FAILED' else set()).add(name)
def norm(n):  # baseline ids are "<package>::<test path>"; integration test binaries use their own name as crate
    return n
missing = sorted(t for t in want if t not in passed)
# integration-test and binary targets: the baseline id is <package>::<target>::<test path> (binaries as
# bin/<name>), cargo prints only the target; compare on the test path and, where present, the target
def keys(n):
    parts = n.split('::')
    out = {n, '::'.join(parts[1:])}
    if len(parts) > 2:
        out.add('::'.join(parts[2:]))
        out.add(parts[1].replace('bin/', '').replace('-', '_') + '::' + '::'.join(parts[2:]))
    return out
pkeys = set()
for pn in passed:
    pkeys |= {pn, pn.replace('-', '_')}
    pkeys.add('::'.join(pn.split('::')[1:]))
still = []
for t in missing:
    if any(k in pkeys or k.replace('-', '_') in pkeys for k in keys(t)):
        continue
    still.append(t)
print(f"baseline stable_pass: {len(want)}; passed now: {len(passed)}; failed now: {len(failed)}")
print(f"stable_pass tests not passing now: {len(still)}")
for t in still[:40]:
    print("  MISSING", t)
sys.exit(1 if still else 0)
