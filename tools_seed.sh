#!/bin/bash
# tools_seed.sh <PROP> <name> <worktree> <demo_dest_rel> "<demo cargo test args>" <crate> [check ids...]
# 1. confirms in the scratch worktree: demo passes without the patch, fails with it; crate tests unchanged
# 2. runs the given checks on /repo with the patch applied (and reverts it)
# 3. stores patch.diff, demo, meta.json under /verif/seeded/<PROP>-<name>/
set -u
VROOT=${VROOT:-/verif}; PROP=$1; NAME=$2; WT=$3; DEST=$4; DEMO="$5"; CRATE=$6; shift 6; CHECKS="$@"
OUT=/verif/seeded/$PROP-$NAME
mkdir -p $OUT
cp $WT/OUT/patch.diff $OUT/patch.diff
cp $WT/OUT/demo.rs $OUT/demo.rs
cp $WT/OUT/demo_README.txt $OUT/demo_README.txt 2>/dev/null
cp $WT/OUT/meta.json $OUT/meta.agent.json
LOG=$OUT/confirm.log; : > $LOG
cd $WT || exit 2
git checkout -q -- . ; mkdir -p $(dirname $DEST); cp OUT/demo.rs $DEST
echo "== demo without patch" >> $LOG
cargo test -p $CRATE --offline $DEMO >> $LOG 2>&1; R0=$?
echo "== crate tests without patch" >> $LOG
cargo test -p $CRATE --offline --no-fail-fast 2>&1 | grep -E "^test .* \.\.\. " | grep -v "$(basename $DEST .rs)" | sort > /tmp/seed_base_$PROP.txt
git apply OUT/patch.diff || { echo "patch does not apply" | tee -a $LOG; exit 2; }
echo "== demo with patch" >> $LOG
cargo test -p $CRATE --offline $DEMO >> $LOG 2>&1; R1=$?
echo "== crate tests with patch" >> $LOG
cargo test -p $CRATE --offline --no-fail-fast 2>&1 | grep -E "^test .* \.\.\. " | grep -v "$(basename $DEST .rs)" | sort > /tmp/seed_patched_$PROP.txt
git checkout -q -- . ; rm -f $DEST
# ignore the demo's own tests when comparing
if diff <(grep -v -F -f <(grep -oE "fn [a-z_0-9]+" OUT/demo.rs | sed 's/fn //') /tmp/seed_base_$PROP.txt) <(grep -v -F -f <(grep -oE "fn [a-z_0-9]+" OUT/demo.rs | sed 's/fn //') /tmp/seed_patched_$PROP.txt) > $OUT/tests.diff; then SUITE=same; else SUITE=CHANGED; fi
echo "demo without patch exit=$R0 (want 0); with patch exit=$R1 (want !=0); existing suite: $SUITE" | tee -a $LOG
# run my checks against /repo with the patch
DET=""
cd /repo && git apply $OUT/patch.diff || { echo "patch does not apply to /repo"; exit 2; }
for c in $CHECKS; do
  VERIF_EVIDENCE_DIR=/tmp/verif_scratch_evidence $VROOT/check $c --tier quick > $OUT/check_$c.log 2>&1; E=$?
  V=$(grep -c "^VIOLATION" $OUT/check_$c.log)
  echo "check $c exit=$E violations=$V" | tee -a $LOG
  DET="$DET $c:exit$E"
done
git -C /repo checkout -q -- .
python3 - <<PY
import json
a=json.load(open("$OUT/meta.agent.json"))
m={"property":"$PROP","name":"$NAME","summary":a.get("summary"),"needs":a.get("needs"),"files":a.get("files"),
   "confirmed":{"demo_passes_without_patch": $R0==0, "demo_fails_with_patch": $R1!=0, "existing_suite_unchanged": "$SUITE"=="same"},
   "checks_run":"$DET".split(), "agent_ran":a.get("ran")}
json.dump(m,open("$OUT/meta.json","w"),indent=1)
PY
rm -f $OUT/meta.agent.json
echo "stored in $OUT"
