#!/bin/bash
# stop stray simulator processes (supervisors and workers) left behind by an interrupted batch
me=$$
for p in $(pgrep -x dcmsim); do kill "$p" 2>/dev/null; done
for p in $(pgrep -f '^/bin/bash /tmp/sw''eep'); do [ "$p" != "$me" ] && kill "$p" 2>/dev/null; done
sleep 1
echo "dcmsim left: $(pgrep -x dcmsim | wc -l)"
